"""C17 -- event handlers run in registration order under the documented blocking rules.

Forty lines of code whose contract is entirely structural (DESIGN section 3, C17).
"""
from __future__ import annotations

import ast
from typing import Dict, List, Optional, Set

from ..astutil import is_const, kwarg, store_targets
from ..cfg import cfg_of
from ..model import AnalysisError, Func, RepoModel, call_name, const_str, dotted, is_self_attr, literal, norm, walk_no_nested

EM = "events/event_manager.py"
ER = "events/event_return.py"
REG = "events/event_registers.py"


def _enum_table(model: RepoModel, rel: str, name: str) -> Dict[str, int]:
    m = model.module(rel)
    v = m.assigns.get(name)
    if not (isinstance(v, ast.Call) and v.args):
        raise AnalysisError(f"{rel}::{name} is not a SimpleEnum({{...}}) literal")
    d = literal(v.args[0])
    if d is NotImplemented or not isinstance(d, dict):
        raise AnalysisError(f"{rel}::{name} table is not a literal dict")
    return d


def _flag_of(expr, enum_name: str) -> Optional[str]:
    """``EventHandlerReturnKind.X`` -> ``X``"""
    d = dotted(expr)
    if d and d.startswith(enum_name + "."):
        return d.split(".", 1)[1]
    if d and "." in d and d.split(".")[-2] == enum_name:
        return d.split(".")[-1]
    return None


def run(model: RepoModel, rep, tier: str):
    rep.not_decided = ("nothing material beyond handler bodies: the static rules decide the shape that exhaustive enumeration of "
                       "registrations/flag vectors would exercise; what individual handlers do with the data is not decided")
    em = model.cls(EM, "EventManager")
    notify = em.methods.get("notify")
    register = em.methods.get("register")
    if notify is None or register is None:
        raise AnalysisError("EventManager.notify/register vanished")
    erm = model.module(ER)
    ENUM = "EventHandlerReturnKind"
    flags = _enum_table(model, ER, ENUM)

    rep.rule("C17.R1", "handlers are appended to the per-event list on registration and notify iterates that same list in order", 3)
    rep.rule("C17.R2", "a handler is called iff the event's language is in its language set or the set contains the any-language marker", 1)
    rep.rule("C17.R3", "after each handler the combined return is updated and a blocking request stops the loop before any further handler "
                       "and before the data hand-over", 2)
    rep.rule("C17.R4", "out_data starts as in_data; in_data becomes out_data exactly on the processed-and-not-blocked path", 2)
    rep.rule("C17.R5", "flag algebra: flags are distinct powers of two; sync_event_return propagates each flag iff returned, SUCCESS iff "
                       "the handler returned non-zero, and leaves the value unchanged for None", 5)
    from ..generic3 import check_enum_distinct
    rep.rule("C17.R7", "event kinds are distinct: no two names of EVENT_KIND (or EventKind) share a number, so the handler lists -- a dict keyed by the "
                       "kind -- are one per event", 1)
    check_enum_distinct(model, rep, "C17.R7", "config/constants.py", ["EVENT_KIND", "EventKind"])
    rep.rule("C17.R6", "every default registration names a known event and a resolvable one-parameter handler whose returns are flags or None", 15)

    # ------------------------------------------------------------------ R1
    table_attr = None
    init = em.methods.get("__init__")
    for n in walk_no_nested(init.node):
        if isinstance(n, ast.Assign) and is_self_attr(n.targets[0]) and isinstance(n.value, ast.Dict) and n.value.keys \
                and all((dotted(k) or "").startswith("EVENT_KIND.") for k in n.value.keys):
            table_attr = n.targets[0].attr
            table_node = n.value
    if table_attr is None:
        raise AnalysisError("EventManager's event -> handler-list table not found")
    known_events = {dotted(k).split(".", 1)[1] for k in table_node.keys}
    list_attrs = [v.attr for v in table_node.values if is_self_attr(v)]
    rep.analysed["event table"] = {"attr": table_attr, "events": sorted(known_events)}

    # register -> add_handler -> append((langs, func))
    def appends_pair(f: Func) -> Optional[ast.Call]:
        for n in walk_no_nested(f.node):
            if isinstance(n, ast.Call) and isinstance(n.func, ast.Attribute) and n.func.attr == "append" and n.args \
                    and isinstance(n.args[0], ast.Tuple) and len(n.args[0].elts) == 2:
                return n
        return None

    reg_call = None
    for n in walk_no_nested(register.node):
        if isinstance(n, ast.Call) and is_self_attr(n.func) and n.func.attr in em.methods:
            callee = em.methods[n.func.attr]
            ap = appends_pair(callee)
            if ap is not None and n.args and isinstance(n.args[0], ast.Subscript) and is_self_attr(n.args[0].value, table_attr):
                reg_call = (n, callee, ap)
    direct = appends_pair(register)
    key = f"{EM}::EventManager.register::append to the event's list"
    if reg_call is not None:
        n, callee, ap = reg_call
        # the list appended to must be the parameter that received self.event_handlers[event]
        p0 = callee.params[1] if len(callee.params) > 1 else None
        tgt_ok = isinstance(ap.func.value, ast.Name) and ap.func.value.id == p0
        order = [x.id if isinstance(x, ast.Name) else None for x in ap.args[0].elts]
        if tgt_ok and ap.func.attr == "append":
            rep.holds("C17.R1", key, EM, n.lineno, f"register -> {callee.name} appends ({order[0]}, {order[1]}) to self.{table_attr}[event]")
        else:
            rep.violation("C17.R1", key, EM, ap.lineno, f"{callee.qualname} does not append to the list selected by self.{table_attr}[event]")
    elif direct is not None:
        rep.holds("C17.R1", key, EM, direct.lineno, "register appends the pair directly")
    else:
        rep.violation("C17.R1", key, EM, register.node.lineno,
                      "EventManager.register no longer appends (langs, handler) to the per-event list: registration order is not the list order")
        order = [None, None]
    # no insert / sort / reverse / other mutation of the handler lists anywhere in the class
    offenders = []
    for f in em.methods.values():
        for n in walk_no_nested(f.node):
            if isinstance(n, ast.Call) and isinstance(n.func, ast.Attribute) and n.func.attr in (
                    "insert", "sort", "reverse", "pop", "remove", "clear", "extend"):
                base = n.func.value
                if (isinstance(base, ast.Subscript) and is_self_attr(base.value, table_attr)) or \
                        (is_self_attr(base) and base.attr in list_attrs) or \
                        (isinstance(base, ast.Name) and f.name in ("add_handler",) and base.id in f.params):
                    offenders.append((f, n))
    key = f"{EM}::EventManager::handler lists are append-only"
    if offenders:
        f, n = offenders[0]
        rep.violation("C17.R1", key, EM, n.lineno, f"{f.qualname} reorders or removes registered handlers: `{norm(n)}`")
    else:
        rep.holds("C17.R1", key, EM, em.node.lineno, f"no insert/sort/reverse/pop/remove on the {len(list_attrs)} handler lists in {len(em.methods)} methods")

    # notify iterates the list obtained from the table for data.event, plainly
    cfg = cfg_of(notify.node)
    loops = [n for n in cfg.g.nodes if cfg.kind[n] == "iter"]
    data_param = notify.params[1] if len(notify.params) > 1 else "data"
    the_loop = None
    for ln in loops:
        it = cfg.stmt[ln].iter
        if isinstance(it, ast.Name):
            # all_handlers = self.event_handlers.get(data.event, None)
            for n in walk_no_nested(notify.node):
                if isinstance(n, ast.Assign) and isinstance(n.targets[0], ast.Name) and n.targets[0].id == it.id:
                    v = n.value
                    src_ok = (isinstance(v, ast.Call) and isinstance(v.func, ast.Attribute) and v.func.attr == "get"
                              and is_self_attr(v.func.value, table_attr)) or \
                             (isinstance(v, ast.Subscript) and is_self_attr(v.value, table_attr))
                    keyexpr = v.args[0] if isinstance(v, ast.Call) and v.args else (v.slice if isinstance(v, ast.Subscript) else None)
                    if src_ok and dotted(keyexpr) == f"{data_param}.event":
                        the_loop = ln
    key = f"{EM}::EventManager.notify::iterates the event's list in order"
    if the_loop is None:
        # maybe wrapped in sorted()/reversed()/set()
        wrapped = [cfg.stmt[ln] for ln in loops if isinstance(cfg.stmt[ln].iter, ast.Call)]
        if wrapped:
            rep.violation("C17.R1", key, EM, wrapped[0].lineno,
                          f"notify iterates `{norm(wrapped[0].iter)}` instead of the registration-ordered list")
        else:
            rep.violation("C17.R1", key, EM, notify.node.lineno, "notify does not iterate self.event_handlers[data.event]")
        raise_after = True
    else:
        rep.holds("C17.R1", key, EM, cfg.stmt[the_loop].lineno, f"plain `for` over self.{table_attr}.get({data_param}.event)")
    if the_loop is None:
        return

    loop_st = cfg.stmt[the_loop]
    tgt = loop_st.target
    if not (isinstance(tgt, ast.Tuple) and len(tgt.elts) == 2 and all(isinstance(e, ast.Name) for e in tgt.elts)):
        raise AnalysisError("notify's loop target is not a (langs, handler) pair")
    langs_var, handler_var = tgt.elts[0].id, tgt.elts[1].id
    # unpack order must match the order of the appended pair
    if order and order[0] is not None:
        key = f"{EM}::EventManager.notify::pair order"
        ap_order_langs_first = order[0] in ("langs",) or (order[0] or "").startswith("lang")
        if ap_order_langs_first:
            rep.holds("C17.R1", key, EM, loop_st.lineno, "pairs are stored and unpacked as (langs, handler)")
        else:
            rep.violation("C17.R1", key, EM, loop_st.lineno, "pairs are stored as (handler, langs) but unpacked as (langs, handler)")

    # ------------------------------------------------------------------ R2
    body_nodes = cfg.loop_body_nodes[the_loop]
    call_nodes = [n for n in body_nodes for c in cfg.calls_at(n) if isinstance(c.func, ast.Name) and c.func.id == handler_var]
    if len(call_nodes) != 1:
        raise AnalysisError(f"expected exactly one call of the handler in notify's loop, found {len(call_nodes)}")
    hc = call_nodes[0]
    key = f"{EM}::EventManager.notify::language filter"
    guards = [(t, lab) for t, lab in cfg.controlling_branches(hc) if isinstance(t, ast.If) and any(
        isinstance(x, ast.Name) and x.id == langs_var for x in ast.walk(t.test))]
    ok = False
    why = "the handler call is not guarded by a test on its language set"
    if guards:
        t, lab = guards[-1]
        test = t.test
        # `if not (A or B): continue` followed by the call is the same guard as `if A or B:` around it
        while isinstance(test, ast.UnaryOp) and isinstance(test.op, ast.Not):
            test, lab = test.operand, ("F" if lab == "T" else "T")
        disj = test.values if isinstance(test, ast.BoolOp) and isinstance(test.op, ast.Or) else [test]
        want = {f"{data_param}.lang in {langs_var}", f"config.ANY_LANG in {langs_var}"}
        got = {norm(d) for d in disj}
        if lab == "T" and got == want:
            ok = True
        else:
            why = f"the guard is `{norm(test)}` ({lab}-branch); expected exactly `{data_param}.lang in {langs_var} or config.ANY_LANG in {langs_var}`"
    if ok:
        rep.holds("C17.R2", key, EM, cfg.stmt[hc].lineno, "call guarded by `data.lang in langs or config.ANY_LANG in langs`")
    else:
        rep.violation("C17.R2", key, EM, cfg.stmt[hc].lineno, "EventManager.notify: " + why)

    # language sets are stored as collections of names: a bare string is wrapped, never iterated
    rcfg = cfg_of(register.node)
    lp = "langs" if "langs" in register.params else (register.params[-1] if register.params else None)
    store_calls = [n for n in rcfg.g.nodes for c in rcfg.calls_at(n) if is_self_attr(c.func) and c.func.attr in em.methods
                   and any(isinstance(a, ast.Name) and a.id == lp for a in c.args)]
    str_tests = [(t, lab) for (t, lab), b in rcfg.branch_of.items() if isinstance(rcfg.stmt[t], ast.If)
                 and isinstance(rcfg.stmt[t].test, ast.Call) and call_name(rcfg.stmt[t].test) == "isinstance"
                 and len(rcfg.stmt[t].test.args) == 2 and isinstance(rcfg.stmt[t].test.args[0], ast.Name) and rcfg.stmt[t].test.args[0].id == lp
                 and dotted(rcfg.stmt[t].test.args[1]) == "str"]
    wraps = {n for n in rcfg.g.nodes if rcfg.kind[n] == "stmt" and isinstance(rcfg.stmt[n], ast.Assign)
             and isinstance(rcfg.stmt[n].targets[0], ast.Name) and rcfg.stmt[n].targets[0].id == lp
             and isinstance(rcfg.stmt[n].value, (ast.List, ast.Tuple, ast.Set)) and len(rcfg.stmt[n].value.elts) == 1
             and isinstance(rcfg.stmt[n].value.elts[0], ast.Name) and rcfg.stmt[n].value.elts[0].id == lp}
    convs = [n for n in rcfg.g.nodes for c in rcfg.calls_at(n) if call_name(c) in ("list", "set", "tuple", "sorted", "frozenset")
             and c.args and isinstance(c.args[0], ast.Name) and c.args[0].id == lp]
    key = f"{EM}::EventManager.register::a bare language name is wrapped, not iterated"
    probs = []
    f_branches = {rcfg.branch_of[(t, "F")] for t, lab in str_tests if (t, "F") in rcfg.branch_of}
    t_branches = {rcfg.branch_of[(t, "T")] for t, lab in str_tests if (t, "T") in rcfg.branch_of}
    if store_calls:
        p = rcfg.path_avoiding(rcfg.ENTRY, store_calls[0], wraps | f_branches)
        if p is not None:
            probs.append("a `str` language argument (the default config.ANY_LANG is one) reaches the handler list unwrapped, so "
                         "`data.lang in langs` becomes a substring test")
    for cn in convs:
        if not any(rcfg.dominates(fb, cn) for fb in f_branches):
            probs.append(f"`{norm(rcfg.stmt[cn])}` iterates the argument on a path where it may be a str: \"python\" becomes "
                         f"['p','y','t','h','o','n'] and the handler never runs for its language")
    if probs:
        rep.violation("C17.R2", key, EM, register.node.lineno, "EventManager.register: " + "; ".join(probs))
    elif store_calls:
        rep.holds("C17.R2", key, EM, register.node.lineno,
                  f"isinstance(langs, str) -> [langs]; {len(convs)} iterating conversion(s), all on the non-str branch")
    else:
        rep.unknown("C17.R2", key, EM, register.node.lineno, "register does not forward its language argument in a recognised way")

    # ------------------------------------------------------------------ R3 / R4
    # statement roles inside the loop
    hst = cfg.stmt[hc]
    cur_var = hst.targets[0].id if isinstance(hst, ast.Assign) and isinstance(hst.targets[0], ast.Name) else None
    sync_nodes, block_tests, handover = [], [], []
    comb_var = None
    for n in body_nodes:
        st = cfg.stmt.get(n)
        if cfg.kind[n] == "stmt" and isinstance(st, ast.Assign) and isinstance(st.value, ast.Call) \
                and (call_name(st.value) or "").endswith("sync_event_return") and isinstance(st.targets[0], ast.Name):
            sync_nodes.append(n)
            comb_var = st.targets[0].id
        if cfg.kind[n] == "test" and isinstance(st, ast.If) and isinstance(st.test, ast.Call) \
                and (call_name(st.test) or "").endswith("should_block_other_event_handlers"):
            block_tests.append(n)
        if cfg.kind[n] == "stmt" and isinstance(st, ast.Assign) and dotted(st.targets[0]) == f"{data_param}.in_data" \
                and dotted(st.value) == f"{data_param}.out_data":
            handover.append(n)
    key = f"{EM}::EventManager.notify::combine then block"
    problems = []
    if cur_var is None:
        problems.append("the handler's return value is not captured")
    if not sync_nodes:
        problems.append("the combined return is not updated with sync_event_return after the handler call")
    else:
        sc = cfg.stmt[sync_nodes[0]].value
        args = [a.id if isinstance(a, ast.Name) else None for a in sc.args]
        if args != [cur_var, comb_var]:
            problems.append(f"sync_event_return is called with {args}, expected ({cur_var}, {comb_var})")
        if not cfg.dominates(hc, sync_nodes[0]):
            problems.append("sync_event_return does not follow the handler call")
    if not block_tests:
        problems.append("no should_block_other_event_handlers test after the handler call: a blocking request does not stop later handlers")
    else:
        bt = block_tests[0]
        targ = cfg.stmt[bt].test.args[0] if cfg.stmt[bt].test.args else None
        if not (isinstance(targ, ast.Name) and targ.id == comb_var):
            problems.append(f"the blocking test inspects `{norm(targ) if targ else ''}` instead of the combined return `{comb_var}`")
        if sync_nodes and not cfg.dominates(sync_nodes[0], bt):
            problems.append("the blocking test precedes the update of the combined return")
        tb = cfg.branch_of.get((bt, "T"))
        # on the T branch control must leave the loop without reaching the loop head again
        if tb is not None:
            reach = cfg.reachable(tb)
            if the_loop in reach:
                problems.append("after a blocking request control can return to the loop head: further handlers run")
            # and must return the combined value
            rets = [cfg.stmt[k] for k in reach if cfg.kind[k] == "stmt" and isinstance(cfg.stmt[k], ast.Return)]
            first = [cfg.stmt[k] for k in cfg.g.successors(tb)]
            if first and isinstance(first[0], ast.Return) and not (isinstance(first[0].value, ast.Name) and first[0].value.id == comb_var):
                problems.append("the early return on blocking does not return the combined value")
        for hn in handover:
            if not cfg.dominates(bt, hn):
                problems.append("the data hand-over is not preceded by the blocking test")
            fb = cfg.branch_of.get((bt, "F"))
            if fb is not None and not cfg.dominates(fb, hn):
                problems.append("the data hand-over also happens on the blocked path")
    if problems:
        rep.violation("C17.R3", key, EM, cfg.stmt[hc].lineno, "EventManager.notify: " + "; ".join(problems))
    else:
        rep.holds("C17.R3", key, EM, cfg.stmt[hc].lineno,
                  "handler call -> sync_event_return(current, combined) -> if should_block(combined): return combined -> hand-over")
    # final return is the combined value
    key = f"{EM}::EventManager.notify::returns the combined value"
    rets = [n for n in walk_no_nested(notify.node) if isinstance(n, ast.Return)]
    bad = [r for r in rets if not (isinstance(r.value, ast.Name) and r.value.id == comb_var)]
    if bad or not rets:
        rep.violation("C17.R3", key, EM, (bad[0].lineno if bad else notify.node.lineno),
                      f"notify returns `{norm(bad[0].value) if bad and bad[0].value else None}` instead of the combined flags")
    else:
        rep.holds("C17.R3", key, EM, rets[-1].lineno, f"all {len(rets)} returns yield `{comb_var}`")
    # the combined value starts as UNPROCESSED
    inits = [n for n in walk_no_nested(notify.node) if isinstance(n, ast.Assign) and isinstance(n.targets[0], ast.Name)
             and n.targets[0].id == comb_var and not (isinstance(n.value, ast.Call) and (call_name(n.value) or "").endswith("sync_event_return"))]
    # R4
    key = f"{EM}::EventManager.notify::out_data initialised from in_data"
    pre = [n for n in cfg.g.nodes if cfg.kind[n] == "stmt" and isinstance(cfg.stmt[n], ast.Assign)
           and dotted(cfg.stmt[n].targets[0]) == f"{data_param}.out_data" and dotted(cfg.stmt[n].value) == f"{data_param}.in_data"]
    if pre and all(cfg.dominates(pre[0], n) for n in [the_loop]):
        rep.holds("C17.R4", key, EM, cfg.stmt[pre[0]].lineno, "data.out_data = data.in_data dominates the loop")
    else:
        rep.violation("C17.R4", key, EM, notify.node.lineno, "notify does not initialise data.out_data from data.in_data before running handlers")
    key = f"{EM}::EventManager.notify::hand-over on processed path only"
    if len(handover) != 1:
        rep.violation("C17.R4", key, EM, notify.node.lineno,
                      f"expected one `data.in_data = data.out_data` in the loop, found {len(handover)}: the next handler does not see the "
                      f"previous handler's output" if not handover else "several hand-over statements")
    else:
        hn = handover[0]
        g = [(t, lab) for t, lab in cfg.controlling_branches(hn) if isinstance(t, ast.If) and isinstance(t.test, ast.Call)
             and (call_name(t.test) or "").endswith("is_event_successfully_processed")]
        if g and g[0][1] == "T" and isinstance(g[0][0].test.args[0], ast.Name) and g[0][0].test.args[0].id == cur_var and cfg.dominates(hc, hn):
            rep.holds("C17.R4", key, EM, cfg.stmt[hn].lineno, "hand-over guarded by is_event_successfully_processed(current_return)")
        else:
            rep.violation("C17.R4", key, EM, cfg.stmt[hn].lineno,
                          "the hand-over `data.in_data = data.out_data` is not guarded by is_event_successfully_processed(<this handler's return>)")

    # ------------------------------------------------------------------ R5
    vals = {k: v for k, v in flags.items()}
    zero = [k for k, v in vals.items() if v == 0]
    nonzero = {k: v for k, v in vals.items() if v != 0}
    key = f"{ER}::{ENUM}::distinct powers of two"
    pw_ok = all(isinstance(v, int) and v > 0 and v & (v - 1) == 0 for v in nonzero.values()) and len(set(nonzero.values())) == len(nonzero) \
        and len(zero) == 1
    if pw_ok:
        rep.holds("C17.R5", key, ER, 1, f"{nonzero} + {zero[0]}=0")
    else:
        rep.violation("C17.R5", key, ER, 1, f"{ENUM} values are not one zero plus distinct powers of two: {vals}")
    sync = erm.functions.get("sync_event_return")
    if sync is None:
        raise AnalysisError("event_return.sync_event_return vanished")
    lp, gp = sync.params[0], sync.params[1]

    def pred_flag(test) -> Optional[str]:
        """Which flag does ``test`` examine on the *local* value?  'NONZERO' for the processed test."""
        if isinstance(test, ast.Call) and isinstance(test.func, ast.Name) and test.args and isinstance(test.args[0], ast.Name) \
                and test.args[0].id == lp:
            f = erm.functions.get(test.func.id)
            if f is None:
                return None
            rets = [n for n in walk_no_nested(f.node) if isinstance(n, ast.Return)]
            if len(rets) != 1:
                return None
            r = rets[0].value
            p = f.params[0]
            if isinstance(r, ast.BinOp) and isinstance(r.op, ast.BitAnd):
                for a, b in ((r.left, r.right), (r.right, r.left)):
                    if isinstance(a, ast.Name) and a.id == p:
                        return _flag_of(b, ENUM)
            if isinstance(r, ast.Compare) and len(r.ops) == 1 and isinstance(r.ops[0], ast.NotEq) and isinstance(r.left, ast.Name) \
                    and r.left.id == p and _flag_of(r.comparators[0], ENUM) == zero[0]:
                return "NONZERO"
            return None
        if isinstance(test, ast.BinOp) and isinstance(test.op, ast.BitAnd):
            for a, b in ((test.left, test.right), (test.right, test.left)):
                if isinstance(a, ast.Name) and a.id == lp:
                    return _flag_of(b, ENUM)
        return None

    from ..model import effective_body
    sync_body = effective_body(sync.node)
    clauses: Dict[str, List[str]] = {}
    for st in sync_body:
        if isinstance(st, ast.If):
            pf = pred_flag(st.test)
            sets = []
            for s in st.body:
                if isinstance(s, ast.AugAssign) and isinstance(s.op, ast.BitOr) and isinstance(s.target, ast.Name) and s.target.id == gp:
                    sets.append(_flag_of(s.value, ENUM))
                elif isinstance(s, ast.Assign) and isinstance(s.targets[0], ast.Name) and s.targets[0].id == gp \
                        and isinstance(s.value, ast.BinOp) and isinstance(s.value.op, ast.BitOr):
                    sets.append(_flag_of(s.value.right, ENUM) or _flag_of(s.value.left, ENUM))
            if pf is not None:
                clauses.setdefault(pf, []).extend(sets)
    for fl in sorted(nonzero):
        key = f"{ER}::sync_event_return::{fl}"
        trigger = "NONZERO" if fl == "SUCCESS" else fl
        got = clauses.get(trigger)
        if got == [fl]:
            rep.holds("C17.R5", key, ER, sync.node.lineno, f"if {'local != UNPROCESSED' if fl == 'SUCCESS' else 'local & ' + fl}: global |= {fl}")
        else:
            # SUCCESS may also be propagated by its own bit test in addition
            rep.violation("C17.R5", key, ER, sync.node.lineno,
                          f"sync_event_return has no clause that sets exactly {fl} when the handler returned "
                          f"{'a non-zero value' if fl == 'SUCCESS' else fl} (found {got}): the combined value is not the union of the flags")
    # a clause must not set a flag other than the one it tests
    for trig, sets in clauses.items():
        want = "SUCCESS" if trig == "NONZERO" else trig
        extra = [s for s in sets if s != want]
        if extra:
            rep.violation("C17.R5", f"{ER}::sync_event_return::clause {trig} sets {extra}", ER, sync.node.lineno,
                          f"sync_event_return sets {extra} when the handler returned {trig}")
    # None leaves the combined value unchanged; final return is the global value
    key = f"{ER}::sync_event_return::None and final return"
    first = sync_body[0]
    none_ok = isinstance(first, ast.If) and isinstance(first.test, ast.Compare) and isinstance(first.test.left, ast.Name) \
        and first.test.left.id == lp and isinstance(first.test.ops[0], ast.Is) and is_const(first.test.comparators[0], None) \
        and len(first.body) == 1 and isinstance(first.body[0], ast.Return) and isinstance(first.body[0].value, ast.Name) \
        and first.body[0].value.id == gp
    last = sync_body[-1]
    ret_ok = isinstance(last, ast.Return) and isinstance(last.value, ast.Name) and last.value.id == gp
    stray = [s for s in sync_body if not isinstance(s, (ast.If, ast.Return, ast.Expr))]
    if none_ok and ret_ok and not stray:
        rep.holds("C17.R5", key, ER, sync.node.lineno, "None -> unchanged; returns the accumulated value; no other writes")
    else:
        rep.violation("C17.R5", key, ER, sync.node.lineno,
                      "sync_event_return: " + ("a None return is not passed through unchanged; " if not none_ok else "")
                      + ("the accumulated value is not what is returned; " if not ret_ok else "")
                      + (f"unexpected statement `{norm(stray[0])}`" if stray else ""))
    # the blocking predicate tests the STOP_OTHER flag
    sb = erm.functions.get("should_block_other_event_handlers")
    key = f"{ER}::should_block_other_event_handlers::tests its flag"
    r = [n for n in walk_no_nested(sb.node) if isinstance(n, ast.Return)] if sb else []
    okb = False
    if len(r) == 1 and isinstance(r[0].value, ast.BinOp) and isinstance(r[0].value.op, ast.BitAnd):
        fl = _flag_of(r[0].value.right, ENUM) or _flag_of(r[0].value.left, ENUM)
        okb = fl == "STOP_OTHER_EVENT_HANDLERS"
    if okb:
        rep.holds("C17.R5", key, ER, sb.node.lineno, "x & STOP_OTHER_EVENT_HANDLERS")
    else:
        rep.violation("C17.R5", key, ER, sb.node.lineno if sb else 1, "should_block_other_event_handlers does not test STOP_OTHER_EVENT_HANDLERS")

    # ------------------------------------------------------------------ R6
    regm = model.module(REG)
    dm = regm.classes.get("DefaultEventHandlerManager")
    if dm is None or "enable" not in dm.methods:
        raise AnalysisError("DefaultEventHandlerManager.enable vanished")
    enable = dm.methods["enable"]
    n_reg = 0
    for n in walk_no_nested(enable.node):
        if isinstance(n, ast.Call) and call_name(n) == "EventHandler":
            n_reg += 1
            ev, hd, lg = kwarg(n, "event"), kwarg(n, "handler"), kwarg(n, "langs")
            evn = (dotted(ev) or "").split(".", 1)[-1]
            hname = dotted(hd) or norm(hd)
            key = f"{REG}::enable::{evn}::{hname}"
            probs = []
            if evn not in known_events:
                probs.append(f"event {evn} is not a key of EventManager.{table_attr}: register() warns and drops the handler")
            f = None
            if isinstance(hd, ast.Attribute) and isinstance(hd.value, ast.Name):
                mod = model.resolve_module_alias(hd.value.id, regm)
                f = mod.functions.get(hd.attr) if mod else None
            if f is None:
                probs.append(f"handler {hname} does not resolve to a module-level function")
            else:
                a = f.node.args
                req = len(a.args) - len(a.defaults)
                if req != 1:
                    probs.append(f"handler {hname} requires {req} positional parameters; notify passes exactly one")
                for r in walk_no_nested(f.node):
                    if isinstance(r, ast.Return) and r.value is not None and not is_const(r.value, None):
                        if _flag_of(r.value, ENUM) is None and not _flag_expr(r.value, ENUM, f):
                            probs.append(f"handler {hname} returns `{norm(r.value)}`, not an {ENUM} flag or None")
                            break
            lv = literal(lg) if lg is not None else NotImplemented
            if lg is not None and lv is NotImplemented:
                # [config.ANY_LANG] etc.
                if not (isinstance(lg, ast.List) and all(const_str(e) is not None or dotted(e) == "config.ANY_LANG" for e in lg.elts)):
                    probs.append(f"langs `{norm(lg)}` is not a list of language names / ANY_LANG")
            if probs:
                rep.violation("C17.R6", key, REG, n.lineno, "; ".join(probs))
            else:
                rep.holds("C17.R6", key, REG, n.lineno, "known event, resolvable 1-parameter handler, flag/None returns")
    rep.analysed["default registrations"] = n_reg
    # information: None returns hand data over although sync ignores them
    rep.info("C17.R4", f"{ER}::is_event_successfully_processed::None", ER, 1,
             "a handler returning None leaves the combined value unchanged (sync) but is 'processed' for the hand-over test (None != 0)")


def _flag_expr(e, enum: str, f: Func) -> bool:
    """Return expressions built from flags: a | b, a local initialised from er.config_*(), calls of er.config_* helpers."""
    if isinstance(e, ast.BinOp) and isinstance(e.op, ast.BitOr):
        return _flag_expr(e.left, enum, f) and _flag_expr(e.right, enum, f)
    if _flag_of(e, enum) is not None:
        return True
    if isinstance(e, ast.Call):
        cn = call_name(e) or ""
        return cn.split(".")[-1].startswith("config_") or cn.split(".")[-1] in ("sync_event_return",)
    if isinstance(e, ast.Name):
        for n in walk_no_nested(f.node):
            if isinstance(n, ast.Assign) and any(isinstance(t, ast.Name) and t.id == e.id for t in n.targets):
                if not _flag_expr(n.value, enum, f):
                    return False
            if isinstance(n, ast.AugAssign) and isinstance(n.target, ast.Name) and n.target.id == e.id:
                if not _flag_expr(n.value, enum, f):
                    return False
        return True
    if isinstance(e, ast.Attribute):
        return True  # e.g. a constant imported under another alias; not decided
    return False


# ---------------------------------------------------------------- self-test mutants
def _mut(rel, cls, func, kind, pred, new=None):
    def m(src):
        from .. import mutate
        if kind == "del":
            return mutate.delete_stmt_where(src, cls, func, pred)
        if kind == "stmt":
            return mutate.replace_stmt_where(src, cls, func, pred, new)
        if kind == "expr":
            return mutate.replace_expr_where(src, cls, func, pred, new)
    return m


MUTANTS = [
    ("notify-reversed", EM, _mut(EM, "EventManager", "notify", "expr",
                                 lambda e: isinstance(e, ast.Name) and e.id == "all_handlers" and isinstance(e.ctx, ast.Load) and e.col_offset > 20,
                                 "reversed(all_handlers)"), "iterates the event's list"),
    ("add-handler-insert-front", EM, _mut(EM, "EventManager", "add_handler", "stmt", lambda st: isinstance(st, ast.Expr),
                                          "handler_list.insert(0, (langs, func))"), "EventManager.register"),
    ("lang-filter-and", EM, _mut(EM, "EventManager", "notify", "expr", lambda e: isinstance(e, ast.BoolOp),
                                 "data.lang in langs and config.ANY_LANG in langs"), "language filter"),
    ("lang-filter-dropped-any", EM, _mut(EM, "EventManager", "notify", "expr", lambda e: isinstance(e, ast.BoolOp),
                                         "data.lang in langs"), "language filter"),
    ("register-iterates-str", EM, _mut(EM, "EventManager", "register", "stmt",
                                       lambda st: isinstance(st, ast.If) and isinstance(st.test, ast.Call) and call_name(st.test) == "isinstance",
                                       "if not isinstance(langs, list):\n    langs = list(langs)"), "bare language name"),
    ("register-no-wrap", EM, _mut(EM, "EventManager", "register", "stmt",
                                  lambda st: isinstance(st, ast.Assign) and isinstance(st.value, ast.List) and len(st.value.elts) == 1, "pass"),
     "bare language name"),
    ("no-block-return", EM, _mut(EM, "EventManager", "notify", "stmt",
                                 lambda st: isinstance(st, ast.Return) and st.col_offset > 16, "pass"), "combine then block"),
    ("block-on-current", EM, _mut(EM, "EventManager", "notify", "expr",
                                  lambda e: isinstance(e, ast.Call) and (call_name(e) or "").endswith("should_block_other_event_handlers"),
                                  "er.should_block_event_requester(event_return)"), "combine then block"),
    ("handover-before-block", EM, _mut(EM, "EventManager", "notify", "stmt",
                                       lambda st: isinstance(st, ast.Assign) and (call_name(st.value) or "").endswith("sync_event_return")
                                       if isinstance(getattr(st, "value", None), ast.Call) else False,
                                       "event_return = er.sync_event_return(current_return, event_return)\ndata.in_data = data.out_data"),
     "hand-over"),
    ("handover-unconditional", EM, _mut(EM, "EventManager", "notify", "expr",
                                        lambda e: isinstance(e, ast.Call) and (call_name(e) or "").endswith("is_event_successfully_processed"),
                                        "True"), "hand-over on processed path"),
    ("sync-drops-stop-requesters", ER, _mut(ER, None, "sync_event_return", "stmt",
                                            lambda st: isinstance(st, ast.If) and isinstance(st.test, ast.Call) and call_name(st.test) == "should_block_event_requester",
                                            "pass"), "sync_event_return::STOP_REQUESTERS"),
    ("sync-wrong-flag", ER, _mut(ER, None, "sync_event_return", "expr",
                                 lambda e: isinstance(e, ast.Attribute) and e.attr == "INTERRUPTION_CALL", "EventHandlerReturnKind.STOP_REQUESTERS"),
     "sync_event_return"),
    ("sync-none-resets", ER, _mut(ER, None, "sync_event_return", "stmt",
                                  lambda st: isinstance(st, ast.Return) and st.col_offset == 8, "return EventHandlerReturnKind.UNPROCESSED"),
     "None and final return"),
    ("flag-collision", ER, lambda src: __import__("sa.mutate", fromlist=["x"]).text_replace(src, '"INTERRUPTION_CALL"                 : 8', '"INTERRUPTION_CALL"                 : 6'),
     "distinct powers of two"),
    ("unknown-event-registered", REG, lambda src: __import__("sa.mutate", fromlist=["x"]).text_replace(
        src, "event = EVENT_KIND.GIR_LIST_GENERATED,\n                handler = basic.add_main_func", "event = EVENT_KIND.GIR_DATA_MODEL_READY,\n                handler = basic.add_main_func"),
     "add_main_func"),
]
