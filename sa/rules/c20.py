"""C20 -- entry points and unit initialisers are selected exactly as configured (DESIGN section 3, C20)."""
from __future__ import annotations

import ast
import os
from typing import Dict, List, Optional, Set

from ..astutil import is_const
from ..cfg import cfg_of
from ..model import AnalysisError, Func, RepoModel, call_name, const_str, dotted, is_self_attr, literal, norm, walk_no_nested

EP = "basics/entry_points.py"


def _yaml_load(path):
    import yaml
    with open(path, "r", encoding="utf-8") as f:
        return yaml.load(f, Loader=getattr(yaml, "CSafeLoader", yaml.SafeLoader))


def _mentions_rule_field(test, rulevar: str) -> Set[str]:
    out = set()
    for n in ast.walk(test):
        if isinstance(n, ast.Attribute) and isinstance(n.value, ast.Name) and n.value.id == rulevar:
            a = n.attr
            if a.startswith("is_") and a.endswith("_available"):
                a = a[3:-10]
            out.add(a)
    return out


def _rule_vars(fnode, fields) -> List[str]:
    """loop variables that range over entry-point rules: found by role (some attribute of theirs is a field of EntryPointRule)"""
    fs = set(fields) | {f"is_{x}_available" for x in fields}
    out = []
    for n in walk_no_nested(fnode):
        if isinstance(n, ast.For) and isinstance(n.target, ast.Name):
            v = n.target.id
            attrs = {x.attr for x in ast.walk(n) if isinstance(x, ast.Attribute) and isinstance(x.value, ast.Name) and x.value.id == v}
            # a rule variable is asked for availability flags (is_<field>_available) or for several rule fields
            if any(a.startswith("is_") and a.endswith("_available") and a in fs for a in attrs) or len(attrs & set(fields)) >= 3:
                out.append(v)
    return out


def run(model: RepoModel, rep, tier: str):
    rep.not_decided = ("that the matched scopes are the right methods (depends on the scope table computed at run time), the effect on "
                       "taint results, behaviour of rules using the unimplemented args/return_type fields")
    m = model.module(EP)
    rule_cls = m.classes.get("EntryPointRule")
    gen = m.classes.get("EntryPointGenerator")
    if rule_cls is None or gen is None:
        raise AnalysisError("EntryPointRule / EntryPointGenerator vanished")
    fields = [st.target.id for st in rule_cls.node.body if isinstance(st, ast.AnnAssign) and isinstance(st.target, ast.Name)]
    rep.analysed["EntryPointRule fields"] = fields

    rep.rule("C20.R1", "rule schema agreement: every key used by a shipped *entry.yaml is a field of EntryPointRule, and every field is "
                       "consulted by the unit filter or the method filter with mismatch => skip", min_instances=9)
    rep.rule("C20.R2", "a method becomes an entry point only after surviving every filter of one rule (or the exact method_id test), "
                       "and what is recorded is that method's id", min_instances=2)
    rep.rule("C20.R3", "the start set is the saved set: only the entry-point generator writes the entry-point store; the top-down phase "
                       "creates entry frames only from it; the taint phase reads graphs only by entry point", min_instances=4)
    rep.rule("C20.R4", "the synthetic initialiser is nameable: add_main_func names the wrapper with the constant the shipped rule uses and "
                       "is registered for every language", min_instances=2)
    rep.rule("C20.R5", "settings discovery accepts exactly `entry.yaml` and `*-entry.yaml` under the settings directory", min_instances=2)
    from ..generic import check_memo_keys
    rep.rule("C20.R7", "the rule filters are functions of the unit they are asked about: a memoised filter result is keyed by every attribute "
                       "of the unit the filter reads (no memo at all is fine)", 0)
    n_memo = check_memo_keys(model, rep, "C20.R7", [EP])
    if n_memo == 0:
        rep.holds("C20.R7", f"{EP}::no memoised filter", EP, 0, "filter_rule_by_unit_info / check_rules compute their answer on every call")
    from ..generic import check_accumulators
    check_accumulators(model, rep, "C20.R6", [EP], {},
                       "rules or matching methods are skipped, so a configured entry point is not selected", 1)

    # ------------------------------------------------------------------ R1
    settings_dir = os.path.join(model.root, "default_settings")
    yaml_keys: Dict[str, int] = {}
    n_rules = 0
    unit_init_rule = False
    yaml_files = []
    if os.path.isdir(settings_dir):
        for fn in sorted(os.listdir(settings_dir)):
            if fn == "entry.yaml" or fn.endswith("-entry.yaml"):
                yaml_files.append(fn)
                data = _yaml_load(os.path.join(settings_dir, fn)) or []
                for r in data:
                    n_rules += 1
                    if not isinstance(r, dict):
                        rep.violation("C20.R1", f"default_settings/{fn}::non-mapping rule", f"default_settings/{fn}", 0,
                                      f"rule #{n_rules} is not a mapping: EntryPointRule(**line) aborts the run")
                        continue
                    for k in r:
                        yaml_keys[k] = yaml_keys.get(k, 0) + 1
                    if "%unit_init" in (r.get("method_list") or []) and len(r) == 1:
                        unit_init_rule = True
    rep.analysed["entry yaml"] = {"files": yaml_files, "rules": n_rules, "keys": yaml_keys}
    for k in sorted(yaml_keys):
        key = f"default_settings::key `{k}`"
        if k in fields:
            rep.holds("C20.R1", key, "default_settings", 0, f"used by {yaml_keys[k]} rules; field of EntryPointRule")
        else:
            rep.violation("C20.R1", key, "default_settings", 0,
                          f"{yaml_keys[k]} shipped entry rules use key `{k}`, which EntryPointRule does not declare: "
                          f"EntryPointRule(**line) raises and the run quits")
    unit_filter = gen.methods.get("filter_rule_by_unit_info")
    meth_filter = gen.methods.get("check_rules")
    if unit_filter is None or meth_filter is None:
        raise AnalysisError("filter_rule_by_unit_info / check_rules vanished")

    def filters_in(f: Func) -> Dict[str, List[ast.If]]:
        out: Dict[str, List[ast.If]] = {}
        rulevars = _rule_vars(f.node, fields)
        for n in walk_no_nested(f.node):
            if isinstance(n, ast.If):
                for rv in rulevars:
                    for fld in _mentions_rule_field(n.test, rv):
                        out.setdefault(fld, []).append(n)
        return out

    uf, mf = filters_in(unit_filter), filters_in(meth_filter)

    def skips(ifs: List[ast.If]) -> bool:
        # some `if` mentioning the field leads to `continue` (mismatch => next rule)
        for i in ifs:
            for s in ast.walk(i):
                if isinstance(s, ast.Continue):
                    return True
        return False

    for fld in fields:
        key = f"{EP}::EntryPointRule.{fld}::consulted"
        ifs = uf.get(fld, []) + mf.get(fld, [])
        if ifs and skips(ifs):
            where = "unit filter" if fld in uf else "method filter"
            rep.holds("C20.R1", key, EP, ifs[0].lineno, f"tested in the {where}; a mismatch skips the rule")
        else:
            rep.violation("C20.R1", key, EP, rule_cls.node.lineno,
                          f"rule field `{fld}` is never used to reject a rule (neither filter_rule_by_unit_info nor check_rules tests it with a "
                          f"`continue`): a rule restricted by `{fld}` selects methods it was meant to exclude")
    # the comparison itself: equality / membership against the unit / scope, not a constant
    # the unit's *file name* is the basename of its path (a local computed in the unit filter)
    base_locals = {n.targets[0].id for n in walk_no_nested(unit_filter.node) if isinstance(n, ast.Assign) and isinstance(n.targets[0], ast.Name)
                   and isinstance(n.value, ast.Call) and call_name(n.value) == "os.path.basename"}
    key = f"{EP}::EntryPointRule.unit_name::compared with the file name"
    ifs = uf.get("unit_name", [])
    ok = False
    for i in ifs:
        for x in ast.walk(i.test):
            if isinstance(x, ast.Name) and x.id in base_locals:
                ok = True
            if isinstance(x, ast.Call) and call_name(x) == "os.path.basename":
                ok = True
    if ok:
        rep.holds("C20.R1", key, EP, ifs[0].lineno, "`rule.unit_name` is tested against os.path.basename(unit path)")
    elif ifs:
        rep.violation("C20.R1", key, EP, ifs[0].lineno,
                      f"the unit_name restriction is tested with `{norm(ifs[0].test)}`, not against the file name (basename of the unit path): "
                      f"a rule restricted to file X also selects files that merely sit in a directory whose path contains X")
    # roles in check_rules: the loop variable over the method scopes and the local holding the method's name
    _outer = next((n for n in meth_filter.node.body if isinstance(n, ast.For) and isinstance(n.target, ast.Name)), None)
    SCOPE = _outer.target.id if _outer is not None else "scope"
    NAME = next((n.targets[0].id for n in walk_no_nested(meth_filter.node) if isinstance(n, ast.Assign) and isinstance(n.targets[0], ast.Name)
                 and any(isinstance(x, ast.Attribute) and x.attr == "name" and isinstance(x.value, ast.Name) and x.value.id == SCOPE for x in ast.walk(n.value))), "name")
    UI = unit_filter.params[1] if len(unit_filter.params) > 1 else "unit_info"
    for fld, expect in (("lang", f"{UI}.lang"), ("unit_path", f"{UI}.unit_path"),
                        ("unit_id", f"{UI}.module_id"), ("method_list", NAME), ("method_id", f"{SCOPE}.stmt_id")):
        ifs = uf.get(fld, []) + mf.get(fld, [])
        key = f"{EP}::EntryPointRule.{fld}::compared with `{expect}`"
        ok = any(expect in norm(i.test) or any(expect in norm(x.test) for x in ast.walk(i) if isinstance(x, ast.If)) for i in ifs)
        if ok:
            rep.holds("C20.R1", key, EP, ifs[0].lineno if ifs else 0, f"`rule.{fld}` is compared with `{expect}`")
        elif ifs:
            rep.violation("C20.R1", key, EP, ifs[0].lineno,
                          f"the test on `rule.{fld}` (`{norm(ifs[0].test)}`) no longer compares it with `{expect}`")

    # identifiers are compared for equality: language names and numeric ids contain one another (`java` in `javascript`, `c` in every
    # other name), so a containment test on them selects rules of other languages / units
    for fld in ("lang", "unit_id", "method_id"):
        for i in uf.get(fld, []) + mf.get(fld, []):
            for cmp_ in ast.walk(i.test):
                if isinstance(cmp_, ast.Compare) and len(cmp_.ops) == 1 and any(
                        isinstance(x, ast.Attribute) and x.attr == fld and isinstance(x.value, ast.Name) for x in [cmp_.left, cmp_.comparators[0]]):
                    key = f"{EP}::EntryPointRule.{fld}::compared by equality"
                    other = cmp_.comparators[0] if (isinstance(cmp_.left, ast.Attribute) and cmp_.left.attr == fld) else cmp_.left
                    if isinstance(other, ast.Constant) or (isinstance(other, ast.UnaryOp) and isinstance(other.operand, ast.Constant)):
                        continue                         # `rule.unit_id >= 0`: availability test, not the comparison
                    if isinstance(cmp_.ops[0], (ast.Eq, ast.NotEq)):
                        rep.holds("C20.R1", key, EP, cmp_.lineno, f"`{norm(cmp_)}`")
                    else:
                        rep.violation("C20.R1", key, EP, cmp_.lineno,
                                      f"`{norm(cmp_)}` is not an equality: for a rule restricted to `javascript` the test also accepts units of "
                                      f"language `java` (and `c`), so methods no rule selects become starting points")
    # the availability flags: `is_<field>_available` says whether <field> (that very field) was given in the rule
    ca = next((f_ for f_ in rule_cls.methods.values() if any(isinstance(t, ast.Attribute) and t.attr.startswith("is_") and t.attr.endswith("_available")
                                                             for a_ in walk_no_nested(f_.node) if isinstance(a_, ast.Assign) for t in a_.targets)), None)
    if ca is None:
        raise AnalysisError("EntryPointRule: the method that computes the is_<field>_available flags vanished")
    for a_ in walk_no_nested(ca.node):
        if isinstance(a_, ast.Assign) and len(a_.targets) == 1 and is_self_attr(a_.targets[0]) and a_.targets[0].attr.startswith("is_") \
                and a_.targets[0].attr.endswith("_available"):
            fld = a_.targets[0].attr[3:-len("_available")]
            read = sorted({x.attr for x in ast.walk(a_.value) if is_self_attr(x)})
            key = f"{EP}::EntryPointRule.is_{fld}_available::computed from `{fld}`"
            if read == [fld]:
                rep.holds("C20.R1", key, EP, a_.lineno, f"`{norm(a_.value)}`")
            else:
                rep.violation("C20.R1", key, EP, a_.lineno,
                              f"`{norm(a_)}`: the flag that says whether a rule restricts by `{fld}` is computed from {read}: a rule that gives only "
                              f"`{fld}` is treated as unrestricted (and one that gives `{read[0] if read else '?'}` is filtered by an empty `{fld}`)")

    # a rule restricts by what its author wrote: no method of EntryPointRule re-writes a configured field (normalising `proj/api/` to
    # `proj/api` turns a directory restriction into a name prefix that also matches `proj/api_internal/`)
    for name_, f_ in sorted(rule_cls.methods.items()):
        for a_ in walk_no_nested(f_.node):
            if isinstance(a_, (ast.Assign, ast.AugAssign)):
                for t_ in (a_.targets if isinstance(a_, ast.Assign) else [a_.target]):
                    if is_self_attr(t_) and t_.attr in fields:
                        key = f"{EP}::EntryPointRule.{name_}::`self.{t_.attr}` is compared as configured"
                        rep.violation("C20.R1", key, EP, a_.lineno,
                                      f"EntryPointRule.{name_} re-writes the configured field `{t_.attr}` (`{norm(a_)[:70]}`): the filters then compare something the "
                                      f"rule's author did not write -- os.path.normpath drops the trailing `/` of a directory restriction, and the substring test "
                                      f"on the remaining prefix also selects sibling files and directories whose names start the same way")
    key = f"{EP}::EntryPointRule::configured fields are never re-written"
    if not any(i.key.endswith("is compared as configured") for i in rep.instances):
        rep.holds("C20.R1", key, EP, rule_cls.node.lineno, f"no method assigns to {sorted(fields)[:4]}...")
    # the settings directory the user names is the one that is used: it is replaced by the built-in one only when the option is absent or
    # empty, never because of what the directory does or does not contain (a directory with `python-entry.yaml` only, or with no entry
    # file at all -- the empty rule set -- is a configuration, not a mistake)
    mm_ = model.module("main.py")
    pc = next((f_ for c_ in mm_.classes.values() for f_ in c_.methods.values() if any(
        isinstance(a_, ast.Assign) and any((dotted(t_) or "").endswith("options.default_settings") for t_ in a_.targets) and (dotted(a_.value) or "").endswith("DEFAULT_SETTINGS")
        for a_ in walk_no_nested(f_.node))), None)
    key = "main.py::the configured settings directory is replaced only when none is given"
    if pc is None:
        rep.unknown("C20.R1", key, "main.py", 0, "the fallback to config.DEFAULT_SETTINGS was not found")
    else:
        pcfg = cfg_of(pc.node)
        nd = next(n for n in pcfg.g.nodes if pcfg.kind[n] == "stmt" and isinstance(pcfg.stmt[n], ast.Assign) and (dotted(pcfg.stmt[n].value) or "").endswith("DEFAULT_SETTINGS"))
        fs_calls = [c for a_, _t in pcfg.conditions_at(nd) for c in ast.walk(a_) if isinstance(c, ast.Call) and ((call_name(c) or "").startswith("os.") or (call_name(c) or "") in ("open", "glob.glob"))]
        if fs_calls:
            rep.violation("C20.R1", key, "main.py", fs_calls[0].lineno,
                          f"{pc.qualname} falls back to the built-in settings depending on `{norm(fs_calls[0])[:90]}`, i.e. on the CONTENT of the directory the user "
                          f"named: rules kept in `<lang>-entry.yaml` or in a sub-directory (which the loader accepts), or a deliberately empty rule set, are "
                          f"silently replaced by the shipped rules -- methods nobody configured become starting points")
        else:
            rep.holds("C20.R1", key, "main.py", pcfg.stmt[nd].lineno, "the fallback is guarded by the presence / emptiness of the option only")
    # ------------------------------------------------------------------ R2
    cfg = cfg_of(meth_filter.node)
    adds = [n for n in cfg.g.nodes for c in cfg.calls_at(n) if isinstance(c.func, ast.Attribute) and c.func.attr == "add"
            and is_self_attr(c.func.value) and "entry_point" in c.func.value.attr]
    if len(adds) != 1:
        raise AnalysisError(f"expected one entry_point_results.add in check_rules, found {len(adds)}")
    an = adds[0]
    call = [c for c in cfg.calls_at(an) if isinstance(c.func, ast.Attribute) and c.func.attr == "add"][0]
    scope_loops = [n for n in walk_no_nested(meth_filter.node) if isinstance(n, ast.For) and isinstance(n.target, ast.Name)
                   and any(x is cfg.stmt[an] for x in ast.walk(n))]
    scope_var = scope_loops[0].target.id if scope_loops else None
    key = f"{EP}::check_rules::records the matched method"
    guard = [(t, lab) for t, lab in cfg.controlling_branches(an) if isinstance(t, ast.If) and isinstance(t.test, ast.Name)]
    probs = []
    if not guard or guard[-1][1] != "T":
        probs.append("the add is not guarded by the `matched` flag")
    if not (call.args and dotted(call.args[0]) == f"{scope_var}.stmt_id"):
        probs.append(f"what is recorded is `{norm(call.args[0]) if call.args else ''}`, not the matched method's id")
    if probs:
        rep.violation("C20.R2", key, EP, cfg.stmt[an].lineno, "check_rules: " + "; ".join(probs))
    else:
        rep.holds("C20.R2", key, EP, cfg.stmt[an].lineno, f"`if matched: entry_point_results.add({scope_var}.stmt_id)`")
    flag = guard[-1][0].test.id if guard else "matched"
    sets_true = [n for n in cfg.g.nodes if cfg.kind[n] == "stmt" and isinstance(cfg.stmt[n], ast.Assign)
                 and isinstance(cfg.stmt[n].targets[0], ast.Name) and cfg.stmt[n].targets[0].id == flag and is_const(cfg.stmt[n].value, True)]
    resets = [n for n in cfg.g.nodes if cfg.kind[n] == "stmt" and isinstance(cfg.stmt[n], ast.Assign)
              and isinstance(cfg.stmt[n].targets[0], ast.Name) and cfg.stmt[n].targets[0].id == flag and is_const(cfg.stmt[n].value, False)]
    # the flag is reset per method (inside the scope loop, outside the rule loop)
    key = f"{EP}::check_rules::flag reset per method"
    _rv = set(_rule_vars(meth_filter.node, fields))
    rule_loops = [n for n in cfg.g.nodes if cfg.kind[n] == "iter" and isinstance(cfg.stmt[n].target, ast.Name) and cfg.stmt[n].target.id in _rv]
    scope_iter = [n for n in cfg.g.nodes if cfg.kind[n] == "iter" and isinstance(cfg.stmt[n].target, ast.Name) and cfg.stmt[n].target.id == scope_var]
    if resets and scope_iter and all(r in cfg.loop_body_nodes[scope_iter[0]] for r in resets) \
            and rule_loops and all(cfg.dominates(resets[0], rl) for rl in rule_loops):
        rep.holds("C20.R2", key, EP, cfg.stmt[resets[0]].lineno, f"`{flag} = False` inside the method loop, before the rule loop")
    else:
        rep.violation("C20.R2", key, EP, meth_filter.node.lineno,
                      f"`{flag}` is not reset for every method before the rules are tried: once one method matches, every later method of the "
                      f"unit is recorded as an entry point")
    method_level_fields = [f for f in fields if f in mf and f != "method_id"]
    for sn in sets_true:
        st = cfg.stmt[sn]
        brs = cfg.controlling_branches(sn)
        under_method_id = any(isinstance(a_, ast.Compare) and "method_id" in norm(a_) and ((isinstance(a_.ops[0], ast.Eq) and tr_) or (isinstance(a_.ops[0], ast.NotEq) and not tr_))
                              for a_, tr_ in cfg.conditions_at(sn))
        key = f"{EP}::check_rules::{flag} = True" + (" (exact method_id)" if under_method_id else " (all filters passed)")
        if under_method_id:
            rep.holds("C20.R2", key, EP, st.lineno, "set under `rule.method_id == scope.stmt_id`")
            continue
        missing = []
        for fld in method_level_fields:
            # some `if` on this field must be passed (its test node dominates the assignment)
            tests = [cfg.node(i) for i in mf[fld]]
            if not any(cfg.dominates(t, sn) for t in tests):
                missing.append(fld)
        # and it must not sit on a branch that a filter rejects (inside a filter's T-branch that continues)
        if missing:
            rep.violation("C20.R2", key, EP, st.lineno,
                          f"`{flag} = True` is reachable without evaluating the filter(s) on {missing}: a method is selected although the rule's "
                          f"{missing} do not match")
        else:
            rep.holds("C20.R2", key, EP, st.lineno, f"dominated by the tests on {method_level_fields}")

    # ------------------------------------------------------------------ R3
    lm = model.module("util/loader.py")
    epl = lm.classes.get("EntryPointsLoader")
    if epl is None:
        raise AnalysisError("EntryPointsLoader vanished")
    store_attr = None
    for n in walk_no_nested(lm.classes["Loader"].methods["__init__"].node):
        if isinstance(n, (ast.Assign, ast.AnnAssign)):
            tgt = n.targets[0] if isinstance(n, ast.Assign) else n.target
            if is_self_attr(tgt) and isinstance(n.value, ast.Call) and call_name(n.value) == "EntryPointsLoader":
                store_attr = tgt.attr
    if store_attr is None:
        raise AnalysisError("Loader does not own an EntryPointsLoader")
    facade_writers = [f for f in lm.classes["Loader"].methods.values() if any(
        isinstance(n, ast.Call) and isinstance(n.func, ast.Attribute) and n.func.attr == "save" and is_self_attr(n.func.value, store_attr)
        for n in walk_no_nested(f.node))]
    facade_names = {f.name for f in facade_writers}
    callers = []
    for f in model.all_funcs():
        for n in walk_no_nested(f.node):
            if isinstance(n, ast.Call) and isinstance(n.func, ast.Attribute) and (
                    n.func.attr in facade_names or (n.func.attr == "save" and isinstance(n.func.value, ast.Attribute) and n.func.value.attr == store_attr)):
                if f.cls is not None and f.cls.name == "Loader" and f.name in facade_names:
                    continue
                callers.append((f, n))
            # direct pokes into the set
            if isinstance(n, ast.Attribute) and n.attr == "entry_points" and isinstance(n.ctx, ast.Store) and not (f.cls is epl):
                if isinstance(n.value, ast.Attribute) and n.value.attr == store_attr:
                    callers.append((f, n))
    key = f"util/loader.py::{store_attr}::writers"
    outside = [(f, n) for f, n in callers if not (f.module.rel == EP and f.cls is gen)]
    if callers and not outside:
        rep.holds("C20.R3", key, EP, callers[0][1].lineno, f"only EntryPointGenerator writes the store ({len(callers)} call site(s) via {sorted(facade_names)})")
    elif outside:
        f, n = outside[0]
        rep.violation("C20.R3", key, f.module.rel, n.lineno,
                      f"{f.ref} also writes the entry-point store (`{norm(n)}`): methods no rule selects become analysis starts")
    else:
        rep.violation("C20.R3", key, EP, gen.node.lineno, "nothing saves the selected entry points: the top-down phase starts from nothing")
    # the generator saves exactly its result set
    col = gen.methods.get("collect_entry_points_from_unit_scope")
    key = f"{EP}::collect_entry_points_from_unit_scope::saves the selected set"
    ok = col is not None and any(isinstance(n, ast.Call) and isinstance(n.func, ast.Attribute) and n.func.attr in facade_names and n.args
                                 and is_self_attr(n.args[0]) and "entry_point" in n.args[0].attr for n in walk_no_nested(col.node))
    (rep.holds if ok else rep.violation)("C20.R3", key, EP, col.node.lineno if col else 0,
                                         "save_entry_points(self.entry_point_results)" if ok else
                                         "the generator does not hand its result set to the loader")
    # P3: entry frames only from loader.get_entry_points()
    gs = model.module("core/global_semantics.py")
    p3 = gs.classes.get("P3GlobalSemanticAnalysis") or next((c for c in gs.classes.values() if "run" in c.methods and "init_frame_stack" in c.methods), None)
    if p3 is None:
        raise AnalysisError("P3 analysis class not found in core/global_semantics.py")
    runf = p3.methods["run"]
    key = f"core/global_semantics.py::{p3.name}.run::starts from the saved entry points"
    loops = [n for n in walk_no_nested(runf.node) if isinstance(n, ast.For) and isinstance(n.iter, ast.Call)
             and isinstance(n.iter.func, ast.Attribute) and n.iter.func.attr == "get_entry_points"]
    init_calls_all = [(f, n) for f in model.all_funcs() for n in walk_no_nested(f.node)
                      if isinstance(n, ast.Call) and isinstance(n.func, ast.Attribute) and n.func.attr == "init_frame_stack"]
    probs = []
    if not loops:
        probs.append("run() does not iterate loader.get_entry_points()")
    else:
        lp = loops[0]
        inside = [n for f, n in init_calls_all if any(x is n for x in ast.walk(lp))]
        if not inside:
            probs.append("no entry frame is created inside the loop over the saved entry points")
        elif not (inside[0].args and isinstance(inside[0].args[0], ast.Name) and isinstance(lp.target, ast.Name) and inside[0].args[0].id == lp.target.id):
            probs.append("the entry frame is not created for the loop's entry point")
        if isinstance(lp.iter, ast.Call) and lp.iter.args:
            probs.append("get_entry_points is called with arguments")
    stray = [(f, n) for f, n in init_calls_all if not (loops and any(x is n for x in ast.walk(loops[0])))]
    if stray:
        probs.append(f"{stray[0][0].ref} creates an entry frame outside the loop over the saved entry points")
    if probs:
        rep.violation("C20.R3", key, "core/global_semantics.py", runf.node.lineno, "; ".join(probs))
    else:
        rep.holds("C20.R3", key, "core/global_semantics.py", loops[0].lineno, "for entry_point in self.loader.get_entry_points(): init_frame_stack(entry_point, ...)")
    # per-entry analysis state: everything init_frame_stack hands to the entry frame from `self` is re-created for each entry
    ifs_f = p3.methods.get("init_frame_stack")
    if loops and ifs_f is not None:
        lp = loops[0]
        shared = []
        for n in walk_no_nested(ifs_f.node):
            if isinstance(n, ast.Call) and (call_name(n) or "").endswith("ComputeFrame"):
                for k in n.keywords:
                    if is_self_attr(k.value) and k.value.attr not in ("loader", "options", "lian", "resolver", "event_manager", "path_manager"):
                        shared.append(k.value.attr)
        for attr in sorted(set(shared)):
            key = f"core/global_semantics.py::{p3.name}.run::self.{attr} is fresh for every entry point"
            fresh = [n for n in ast.walk(lp) if isinstance(n, ast.Assign) and any(is_self_attr(t, attr) for t in n.targets)]
            init_call = [n for n in ast.walk(lp) if isinstance(n, ast.Call) and isinstance(n.func, ast.Attribute) and n.func.attr == "init_frame_stack"]
            if fresh and init_call and fresh[0].lineno < init_call[0].lineno:
                rep.holds("C20.R3", key, "core/global_semantics.py", fresh[0].lineno, f"self.{attr} = {norm(fresh[0].value)} inside the entry loop, before the entry frame is built")
            else:
                rep.violation("C20.R3", key, "core/global_semantics.py", lp.lineno,
                              f"init_frame_stack hands self.{attr} to every entry frame, but run() does not re-create it per entry point: the "
                              f"budget/state used up while analysing earlier entries cuts the analysis of later ones short, so code reachable "
                              f"from a selected entry is not analysed under it")
    # taint: graphs only by entry point
    tm = model.module("taint/taint_analysis.py")
    ta = tm.classes.get("TaintAnalysis")
    key = "taint/taint_analysis.py::TaintAnalysis.run::graphs by entry point"
    if ta is None or "run" not in ta.methods:
        raise AnalysisError("TaintAnalysis.run vanished")
    sfg_sources = [n for n in walk_no_nested(ta.methods["run"].node) if isinstance(n, ast.Assign) and any(is_self_attr(t, "sfg") for t in n.targets)]
    ok = sfg_sources and all(isinstance(n.value, ast.Call) and isinstance(n.value.func, ast.Attribute)
                             and n.value.func.attr == "get_global_sfg_by_entry_point" for n in sfg_sources)
    (rep.holds if ok else rep.violation)("C20.R3", key, "taint/taint_analysis.py", ta.methods["run"].node.lineno,
                                         "self.sfg = loader.get_global_sfg_by_entry_point(id)" if ok else
                                         "TaintAnalysis.run obtains a state-flow graph other than by entry point: code reachable from no entry contributes flows")

    # ------------------------------------------------------------------ R4
    bm = model.module("events/default_event_handlers/basic.py")
    amf = bm.functions.get("add_main_func")
    if amf is None:
        raise AnalysisError("basic.add_main_func vanished")
    cm = model.module("config/constants.py")
    li = cm.assigns.get("LIAN_INTERNAL")
    table = literal(li.args[0]) if isinstance(li, ast.Call) and li.args else NotImplemented
    if table is NotImplemented:
        raise AnalysisError("constants.LIAN_INTERNAL is not a literal table")
    name_exprs = [v for n in walk_no_nested(amf.node) if isinstance(n, ast.Dict) for k, v in zip(n.keys, n.values)
                  if const_str(k) == "name" and any(const_str(k2) == "operation" and const_str(v2) == "method_decl"
                                                    for k2, v2 in zip(n.keys, n.values))]
    key = "events/default_event_handlers/basic.py::add_main_func::wrapper name"
    val = None
    if name_exprs:
        d = dotted(name_exprs[0]) or ""
        if d.startswith("LIAN_INTERNAL."):
            val = table.get(d.split(".", 1)[1])
        elif const_str(name_exprs[0]) is not None:
            val = const_str(name_exprs[0])
    shipped = "%unit_init"
    if val is None:
        rep.violation("C20.R4", key, bm.rel, amf.node.lineno, "add_main_func does not emit a method_decl with a constant name for the initialiser")
    elif val == shipped and unit_init_rule:
        rep.holds("C20.R4", key, bm.rel, amf.node.lineno, f"wrapper is named `{val}`, the name the shipped rule `- method_list: [\"{shipped}\"]` selects")
    elif not unit_init_rule:
        rep.info("C20.R4", key, bm.rel, amf.node.lineno, "no shipped rule names the unit initialiser")
        rep.holds("C20.R4", key + "::constant", bm.rel, amf.node.lineno, f"wrapper is named `{val}`")
    else:
        rep.violation("C20.R4", key, bm.rel, amf.node.lineno,
                      f"the unit initialiser is named `{val}` but the shipped entry rule selects `{shipped}`: no file's top-level code is ever a start")
    regm = model.module("events/event_registers.py")
    key = "events/event_registers.py::add_main_func registered for every language"
    ok = False
    for n in ast.walk(regm.tree):
        if isinstance(n, ast.Call) and call_name(n) == "EventHandler":
            h = next((k.value for k in n.keywords if k.arg == "handler"), None)
            if (dotted(h) or "").endswith("add_main_func"):
                ev = next((k.value for k in n.keywords if k.arg == "event"), None)
                lg = next((k.value for k in n.keywords if k.arg == "langs"), None)
                ok = (dotted(ev) or "").endswith("GIR_LIST_GENERATED") and isinstance(lg, ast.List) and any(dotted(e) == "config.ANY_LANG" for e in lg.elts)
    (rep.holds if ok else rep.violation)("C20.R4", key, regm.rel, 1,
                                         "EventHandler(GIR_LIST_GENERATED, basic.add_main_func, [ANY_LANG])" if ok else
                                         "add_main_func is not registered on GIR_LIST_GENERATED for ANY_LANG: some languages get no unit initialiser")

    # ------------------------------------------------------------------ R5
    ls = gen.methods.get("_load_settings")
    um = model.module("util/util.py")
    chk = um.functions.get("check_file_processing_flag_and_extract_lang")
    if ls is None or chk is None:
        raise AnalysisError("_load_settings / check_file_processing_flag_and_extract_lang vanished")
    key = f"{EP}::_load_settings::walks the settings directory with the entry file name"
    walks = [n for n in walk_no_nested(ls.node) if isinstance(n, ast.Call) and call_name(n) == "os.walk"]
    chk_calls = [n for n in walk_no_nested(ls.node) if isinstance(n, ast.Call) and (call_name(n) or "").endswith(chk.name)]
    cfgm = model.module("config/config.py")
    req = None
    if chk_calls and len(chk_calls[0].args) >= 2:
        d = dotted(chk_calls[0].args[1]) or ""
        if d.startswith("config.") and d.split(".", 1)[1] in cfgm.assigns:
            req = const_str(cfgm.assigns[d.split(".", 1)[1]])
    probs = []
    if not (walks and walks[0].args and dotted(walks[0].args[0]) == "self.options.default_settings"):
        probs.append("does not walk options.default_settings")
    if req != "entry.yaml":
        probs.append(f"the required file name resolves to {req!r}, not 'entry.yaml'")
    # the flag gates parsing
    parse_calls = [n for n in walk_no_nested(ls.node) if isinstance(n, ast.Call) and is_self_attr(n.func, "_parse_config_file")]
    if not parse_calls:
        probs.append("no settings file is parsed")
    if probs:
        rep.violation("C20.R5", key, EP, ls.node.lineno, "_load_settings: " + "; ".join(probs))
    else:
        rep.holds("C20.R5", key, EP, ls.node.lineno, "os.walk(options.default_settings) + name test against config.ENTRY_POINTS_FILE = 'entry.yaml'")
    key = "util/util.py::check_file_processing_flag_and_extract_lang::accepts name == req or name.endswith('-' + req)"
    tests = [norm(n.test) for n in walk_no_nested(chk.node) if isinstance(n, ast.If)]
    p0, p1 = chk.params[0], chk.params[1]
    ok = (f"{p0} == {p1}" in tests or f"{p1} == {p0}" in tests) and any(t == f"{p0}.endswith('-' + {p1})" for t in tests)
    (rep.holds if ok else rep.violation)("C20.R5", key, "util/util.py", chk.node.lineno,
                                         "equality or '-'+name suffix" if ok else f"the acceptance tests are {tests}: other files are (not) read as entry rules")


# ---------------------------------------------------------------- self-test mutants
def _m(kind, cls, func, pred, new=None, rel=EP, nth=0):
    def mut(src):
        from .. import mutate
        if kind == "del":
            return mutate.delete_stmt_where(src, cls, func, pred, nth)
        if kind == "stmt":
            return mutate.replace_stmt_where(src, cls, func, pred, new, nth)
        return mutate.replace_expr_where(src, cls, func, pred, new, nth)
    return mut


def _if_on(field):
    return lambda st: isinstance(st, ast.If) and field in norm(st.test)


MUTANTS = [
    ("unit-filter-memoised-by-basename", EP,
     lambda src: __import__("sa.mutate", fromlist=["x"]).text_replace(
         __import__("sa.mutate", fromlist=["x"]).text_replace(src, "        candidate_rules = []\n\n        for rule in self.entry_point_rules:",
                                                                "        cache_key = (unit_info.lang, unit_name)\n        if cache_key in self.candidate_rule_cache:\n            return self.candidate_rule_cache[cache_key]\n        candidate_rules = []\n\n        for rule in self.entry_point_rules:"),
         "            candidate_rules.append(rule)\n\n        return candidate_rules", "            candidate_rules.append(rule)\n\n        self.candidate_rule_cache[cache_key] = candidate_rules\n        return candidate_rules"),
     "memo self.candidate_rule_cache is keyed by every input"),
    ("drop-lang-filter", EP, _m("del", "EntryPointGenerator", "filter_rule_by_unit_info", _if_on("rule.lang")), "EntryPointRule.lang"),
    ("drop-unit-name-filter", EP, _m("del", "EntryPointGenerator", "filter_rule_by_unit_info", _if_on("rule.unit_name")), "EntryPointRule.unit_name"),
    ("drop-unit-path-filter", EP, _m("del", "EntryPointGenerator", "filter_rule_by_unit_info", _if_on("rule.unit_path")), "EntryPointRule.unit_path"),
    ("drop-method-list-filter", EP, _m("del", "EntryPointGenerator", "check_rules", _if_on("name not in rule.method_list")), "EntryPointRule.method_list"),
    ("drop-attrs-filter", EP, _m("del", "EntryPointGenerator", "check_rules", _if_on("rule.is_attrs_available")), "EntryPointRule.attrs"),
    ("flag-not-reset", EP, _m("del", "EntryPointGenerator", "check_rules",
                              lambda st: isinstance(st, ast.Assign) and isinstance(st.targets[0], ast.Name) and st.targets[0].id == "matched" and is_const(st.value, False)),
     "flag reset per method"),
    ("add-unguarded", EP, _m("stmt", "EntryPointGenerator", "check_rules",
                             lambda st: isinstance(st, ast.If) and isinstance(st.test, ast.Name) and st.test.id == "matched",
                             "self.entry_point_results.add(scope.stmt_id)"), "records the matched method"),
    ("records-parent", EP, _m("expr", "EntryPointGenerator", "check_rules",
                              lambda e: isinstance(e, ast.Attribute) and e.attr == "stmt_id" and isinstance(e.ctx, ast.Load),
                              "scope.parent_stmt_id", nth=-1), "records the matched method"),
    ("lang-compared-to-constant", EP, _m("expr", "EntryPointGenerator", "filter_rule_by_unit_info",
                                         lambda e: isinstance(e, ast.Attribute) and dotted(e) == "unit_info.lang", "config.ANY_LANG"),
     "EntryPointRule.lang::compared"),
    ("unit-name-substring-of-path", EP, _m("expr", "EntryPointGenerator", "filter_rule_by_unit_info",
                                           lambda e: isinstance(e, ast.Compare) and "rule.unit_name" in norm(e), "rule.unit_name not in unit_info.unit_path"),
     "unit_name::compared with the file name"),
    ("counter-not-reset-per-entry", "core/global_semantics.py",
     lambda src: __import__("sa.mutate", fromlist=["x"]).delete_stmt_where(
         src, "P3GlobalSemanticAnalysis", "run", lambda st: isinstance(st, ast.Assign) and any(is_self_attr(t, "call_site_analyze_counter") for t in st.targets)),
     "call_site_analyze_counter is fresh"),
    ("p3-all-methods", "core/global_semantics.py",
     lambda src: __import__("sa.mutate", fromlist=["x"]).text_replace(src, "for entry_point in self.loader.get_entry_points():", "for entry_point in self.loader.get_all_method_ids():"),
     "starts from the saved entry points"),
    ("unit-init-renamed", "config/constants.py",
     lambda src: __import__("sa.mutate", fromlist=["x"]).text_replace(src, '"%unit_init"', '"%unit_initializer"'), "wrapper name"),
    ("entry-file-renamed", "config/config.py",
     lambda src: __import__("sa.mutate", fromlist=["x"]).text_replace(src, '"entry.yaml"', '"entries.yaml"'), "_load_settings"),
    ("suffix-test-loosened", "util/util.py", _m("expr", None, "check_file_processing_flag_and_extract_lang",
                                                lambda e: isinstance(e, ast.BinOp) and isinstance(e.op, ast.Add), "requirement", rel="util/util.py"),
     "check_file_processing_flag_and_extract_lang"),
    ("yaml-key-unknown", "@default_settings/entry.yaml",
     lambda src: src.replace("- method_list: [\"%unit_init\"]", "- method_list: [\"%unit_init\"]\n  file_name: \"a.py\"", 1), "key `file_name`"),
]
