"""C03 -- emitted GIR is structurally well-formed for every input in every language (DESIGN section 3, C03)."""
from __future__ import annotations

import ast
from typing import Dict, List, Optional, Set, Tuple

from ..astutil import is_const, store_targets
from ..cfg import cfg_of
from ..model import AnalysisError, Func, RepoModel, call_name, const_str, dotted, is_self_attr, effective_body, literal, norm, walk_no_nested

LA = "lang/lang_analysis.py"
BASIC = "events/default_event_handlers/basic.py"
# modules that run between parsing and saving the unit GIR (the only code that may touch statement ids)
ID_WRITERS_ALLOWED = {
    f"{LA}::GIRProcessing.init_stmt_id": "assigns the next id to a flattened statement",
    f"{LA}::GIRProcessing.get_id_from_node": "assigns an id on demand",
    f"{LA}::GIRProcessing.flatten_block": "block marker rows share the block's id",
    f"{BASIC}::add_main_func": "synthetic unit initialiser above the unit's maximum id",
    "incremental/unit_level_incremental_checker.py": "re-bases ids of a reused unit (incremental mode; enumerated separately)",
    "util/loader.py::Loader._clone_method_gir": "strict mode clone: shifts ids above max_gir_id (enumerated separately)",
}


def _dict_with(n, **kv) -> bool:
    if not isinstance(n, ast.Dict):
        return False
    have = {const_str(k): v for k, v in zip(n.keys, n.values) if k is not None}
    return all(k in have and (v is None or const_str(have[k]) == v) for k, v in kv.items())


def _min_gain(adj: Func, model: RepoModel) -> Optional[int]:
    """Least value of (returned id - argument) over all arguments, by interval arithmetic over the function's straight-line/if code.
    Abstract value: ('rel', lo, hi) = argument + [lo, hi], or ('abs', lo, hi).  None = not modelled."""
    if len(adj.params) < 2:
        return None
    arg = adj.params[1]
    consts = {k: literal(v) for k, v in model.module("config/config.py").assigns.items() if isinstance(literal(v), int)}

    def ev(e, env):
        if isinstance(e, ast.Constant) and isinstance(e.value, int):
            return ("abs", e.value, e.value)
        if isinstance(e, ast.Name):
            return env.get(e.id)
        if isinstance(e, ast.Attribute) and dotted(e) and dotted(e).startswith("config.") and e.attr in consts:
            return ("abs", consts[e.attr], consts[e.attr])
        if isinstance(e, ast.BinOp):
            l, r = ev(e.left, env), ev(e.right, env)
            if isinstance(e.op, ast.Mod) and r and r[0] == "abs" and r[1] == r[2] and r[1] > 0 and l is not None:
                return ("abs", 0, r[1] - 1)
            # (x // m) * m  ==  x - x % m
            if isinstance(e.op, ast.Mult) and isinstance(e.left, ast.BinOp) and isinstance(e.left.op, ast.FloorDiv) and r and r[0] == "abs" and r[1] == r[2] and r[1] > 0 \
                    and norm(e.left.right) == norm(e.right):
                inner = ev(e.left.left, env)
                return (inner[0], inner[1] - (r[1] - 1), inner[2]) if inner else None
            # (x // m + k) * m  ==  x - x % m + k * m
            if isinstance(e.op, ast.Mult) and isinstance(e.left, ast.BinOp) and isinstance(e.left.op, ast.Add) and isinstance(e.left.left, ast.BinOp) \
                    and isinstance(e.left.left.op, ast.FloorDiv) and r and r[0] == "abs" and r[1] == r[2] and r[1] > 0 \
                    and norm(e.left.left.right) == norm(e.right):
                inner, k = ev(e.left.left.left, env), ev(e.left.right, env)
                if inner and k and k[0] == "abs":
                    return (inner[0], inner[1] - (r[1] - 1) + k[1] * r[1], inner[2] + k[2] * r[1])
                return None
            if l is None or r is None:
                return None
            if isinstance(e.op, ast.Add):
                if l[0] == "rel" and r[0] == "rel":
                    return None
                return ("rel" if "rel" in (l[0], r[0]) else "abs", l[1] + r[1], l[2] + r[2])
            if isinstance(e.op, ast.Sub):
                if r[0] == "rel":
                    return None
                return (l[0], l[1] - r[2], l[2] - r[1])
        return None

    def join(a, b):
        if a is None or b is None or a[0] != b[0]:
            return None
        return (a[0], min(a[1], b[1]), max(a[2], b[2]))
    results = []

    def run_block(stmts, env) -> Optional[dict]:
        """returns the env after the block, or None when every path returned; raises LookupError on unsupported code"""
        for st in stmts:
            if isinstance(st, ast.Expr) and isinstance(st.value, ast.Constant):
                continue
            if isinstance(st, ast.Assign) and len(st.targets) == 1 and isinstance(st.targets[0], ast.Name):
                env = dict(env, **{st.targets[0].id: ev(st.value, env)})
            elif isinstance(st, ast.AugAssign) and isinstance(st.target, ast.Name):
                env = dict(env, **{st.target.id: ev(ast.BinOp(left=ast.Name(id=st.target.id, ctx=ast.Load()), op=st.op, right=st.value), env)})
            elif isinstance(st, ast.Return):
                results.append(ev(st.value, env) if st.value is not None else None)
                return None
            elif isinstance(st, ast.If):
                a = run_block(st.body, env)
                b = run_block(st.orelse, env)
                if a is None and b is None:
                    return None
                if a is None or b is None:
                    env = a if a is not None else b
                else:
                    env = {k: join(a.get(k), b.get(k)) for k in set(a) | set(b)}
            else:
                raise LookupError(type(st).__name__)
        return env
    try:
        run_block(effective_body(adj.node), {arg: ("rel", 0, 0)})
    except LookupError:
        return None
    if not results or any(r is None or r[0] != "rel" for r in results):
        return None
    return min(r[1] for r in results)


def run(model: RepoModel, rep, tier: str):
    rep.not_decided = ("that the phase never terminates with an unhandled exception for arbitrary bytes (every find_child_by_field result is "
                       "dereferenced unguarded in the frontends; left to fuzzing), and that textual enclosure equals the emitted parent "
                       "relation for every grammar")
    la = model.module(LA)
    gp = la.classes.get("GIRProcessing")
    lang = la.classes.get("LangAnalysis")
    if gp is None or lang is None:
        raise AnalysisError("GIRProcessing / LangAnalysis vanished")
    bm = model.module(BASIC)
    amf = bm.functions.get("add_main_func")
    if amf is None:
        raise AnalysisError("add_main_func vanished")

    rep.rule("C03.R1", "single id source: statement ids are written only by the flattener's counter and the unit-initialiser wrapper; "
                       "the counter is monotone", 4)
    rep.rule("C03.R2", "the gap left between units covers the ids the wrapper takes above the unit maximum, and is applied after "
                       "every unit on every path", 3)
    rep.rule("C03.R3", "block markers are paired: every block_start row is followed on every path by exactly one block_end row with "
                       "the same id and parent, children in between", 2)
    rep.rule("C03.R4", "the unit-initialiser partition loses and duplicates nothing: every input row goes to exactly one of the two "
                       "lists on every path and the index advances", 3)
    rep.rule("C03.R5", "body attributes name blocks they own: a block-valued attribute receives the id returned by flatten_block "
                       "called with the owning statement's id as parent", 2)

    from ..generic3 import check_starred_unpacking
    rep.rule("C03.R7", "the language phase does not end with an unhandled ValueError on an empty list: every `first, *rest = xs` in the frontends, "
                       "the flattener and the normalisation passes is dominated by a non-emptiness test (expected count on the pinned tree: zero)", 0)
    check_starred_unpacking(model, rep, "C03.R7", sorted(r for r in model.modules if r.startswith(("lang/", "events/"))))
    rep.rule("C03.R6", "no regular expression is built from unescaped text of the analysed program in the language phase (re.error is an "
                       "unhandled exception there and ends the phase for every file)", 5)
    from .c08 import check_regex_escape
    check_regex_escape(model, rep, "C03.R6", only=("events/default_event_handlers/", "lang/", "preparation.py"))


    # ------------------------------------------------------------------ R1
    aid = gp.methods.get("assign_id")
    key = f"{LA}::GIRProcessing.assign_id::monotone"
    if aid is None:
        raise AnalysisError("GIRProcessing.assign_id vanished")
    inc = [n for n in walk_no_nested(aid.node) if isinstance(n, ast.AugAssign) and is_self_attr(n.target, "node_id") and isinstance(n.op, ast.Add)
           and is_const(n.value, 1)]
    other_writes = [n for f in gp.methods.values() if f.name not in ("__init__", "assign_id") for n in walk_no_nested(f.node)
                    if isinstance(n, (ast.Assign, ast.AugAssign)) and any(is_self_attr(t, "node_id") for t in store_targets(n))]
    rets = [n for n in walk_no_nested(aid.node) if isinstance(n, ast.Return)]
    prev_ok = rets and isinstance(rets[0].value, ast.Name) and any(
        isinstance(n, ast.Assign) and isinstance(n.targets[0], ast.Name) and n.targets[0].id == rets[0].value.id and is_self_attr(n.value, "node_id")
        and n.lineno < inc[0].lineno for n in walk_no_nested(aid.node)) if inc else False
    if inc and prev_ok and not other_writes:
        rep.holds("C03.R1", key, LA, aid.node.lineno, "previous = node_id; node_id += 1; return previous; no other writer of node_id")
    else:
        rep.violation("C03.R1", key, LA, aid.node.lineno,
                      "assign_id is not `return the counter and post-increment it by one`" + (f"; {other_writes[0].lineno}: another method writes node_id" if other_writes else "")
                      + ": two statements can receive the same id")
    # who writes a stmt_id key
    writers: Dict[str, List[int]] = {}
    for rel, m in model.modules.items():
        if rel.startswith("lang/") and rel != LA:
            continue   # frontends never mention stmt_id (checked below)
        for f in m.all_funcs():
            for n in walk_no_nested(f.node):
                hit = False
                if isinstance(n, (ast.Assign, ast.AugAssign)):
                    for t in store_targets(n):
                        if isinstance(t, ast.Subscript) and const_str(t.slice) == "stmt_id":
                            hit = True
                if isinstance(n, ast.Dict) and any(k is not None and const_str(k) == "stmt_id" for k in n.keys):
                    # a dict literal with a stmt_id key that is a GIR row (has an operation key)
                    if any(k is not None and const_str(k) == "operation" for k in n.keys):
                        hit = True
                if hit:
                    writers.setdefault(f.ref, []).append(n.lineno)
    # a frontend "chooses" an id when the content dict of an emitted {"op": {...}} carries a stmt_id / parent_stmt_id key
    frontend_mentions = []
    for rel, m in model.modules.items():
        if rel.startswith("lang/") and rel.endswith("_parser.py"):
            for n in ast.walk(m.tree):
                if isinstance(n, ast.Dict) and len(n.keys) == 1 and isinstance(n.values[0], ast.Dict) and any(
                        k is not None and const_str(k) in ("stmt_id", "parent_stmt_id") for k in n.values[0].keys):
                    frontend_mentions.append(f"{rel}:{n.lineno}")
    rep.analysed["writers of stmt_id"] = writers
    for ref, lines in sorted(writers.items()):
        key = f"{ref}::writes stmt_id"
        allowed = ID_WRITERS_ALLOWED.get(ref) or next((v for k, v in ID_WRITERS_ALLOWED.items() if ref.startswith(k)), None)
        if allowed:
            rep.holds("C03.R1", key, ref.split("::")[0], lines[0], allowed)
        else:
            rep.violation("C03.R1", key, ref.split("::")[0], lines[0],
                          f"{ref} writes a statement id outside the flattener's counter and the unit-initialiser wrapper: ids are no longer "
                          f"unique by construction")
    key = "lang/*_parser.py::frontends never choose statement ids"
    if frontend_mentions:
        rep.violation("C03.R1", key, frontend_mentions[0], 0, f"{frontend_mentions[:3]} emit a statement that carries its own stmt_id/parent_stmt_id: it overrides the flattener's numbering")
    else:
        rep.holds("C03.R1", key, "lang", 0, "no frontend emits a statement content with a stmt_id / parent_stmt_id key")

    # ------------------------------------------------------------------ roles of add_main_func's locals (found by what they do, not by name)
    MAXID = INDEX = TOP = REGULAR = OUT = None
    for n in walk_no_nested(amf.node):
        # MAXID = max(MAXID, row["stmt_id"])
        if isinstance(n, ast.Assign) and isinstance(n.targets[0], ast.Name) and isinstance(n.value, ast.Call) and call_name(n.value) == "max" \
                and any(isinstance(a, ast.Name) and a.id == n.targets[0].id for a in n.value.args) \
                and any(isinstance(a, ast.Subscript) and const_str(a.slice) == "stmt_id" for a in n.value.args):
            MAXID = n.targets[0].id
    whiles = [n for n in walk_no_nested(amf.node) if isinstance(n, ast.While)]
    whiles.sort(key=lambda n: n.lineno)
    if whiles and isinstance(whiles[0].test, ast.Compare) and isinstance(whiles[0].test.left, ast.Name):
        INDEX = whiles[0].test.left.id
    def _iter_name(it):
        if isinstance(it, ast.Name):
            return it.id
        if isinstance(it, ast.Call) and it.args and isinstance(it.args[0], ast.Name):
            return it.args[0].id
        return None
    fors_after = [n for n in walk_no_nested(amf.node) if isinstance(n, ast.For) and _iter_name(n.iter) and whiles and n.lineno > whiles[0].end_lineno]
    appended_in_while = {c.func.value.id for w in whiles[:1] for c in ast.walk(w) if isinstance(c, ast.Call) and isinstance(c.func, ast.Attribute)
                         and c.func.attr == "append" and isinstance(c.func.value, ast.Name)}
    for fr in fors_after:
        if _iter_name(fr.iter) in appended_in_while:
            TOP = _iter_name(fr.iter)
            outs = {c.func.value.id for c in ast.walk(fr) if isinstance(c, ast.Call) and isinstance(c.func, ast.Attribute) and c.func.attr == "append"
                    and isinstance(c.func.value, ast.Name)}
            OUT = next(iter(outs), None)
    REGULAR = next(iter(appended_in_while - {TOP}), None) if TOP and len(appended_in_while) == 2 else None
    if not all((MAXID, INDEX, TOP, REGULAR, OUT)):
        raise AnalysisError(f"add_main_func: roles not recognised (max id {MAXID}, index {INDEX}, top list {TOP}, regular list {REGULAR}, output {OUT})")
    rep.analysed["add_main_func roles"] = {"max id": MAXID, "index": INDEX, "top-level list": TOP, "declaration list": REGULAR, "output": OUT}

    # ------------------------------------------------------------------ R2
    offsets = []
    wrapper_ids: Dict[str, int] = {}
    for n in walk_no_nested(amf.node):
        if isinstance(n, ast.Assign) and isinstance(n.value, ast.BinOp) and isinstance(n.value.op, ast.Add) \
                and isinstance(n.value.left, ast.Name) and n.value.left.id == MAXID and isinstance(n.value.right, ast.Constant):
            offsets.append(n.value.right.value)
            if isinstance(n.targets[0], ast.Name):
                wrapper_ids[n.targets[0].id] = n.value.right.value
    gap = literal(model.module("config/config.py").assigns.get("MIN_ID_INTERVAL"))
    key = f"{BASIC}::add_main_func::ids above the unit maximum fit into the inter-unit gap"
    adj = lang.methods.get("adjust_node_id")
    adds_gap = adj is not None and any(isinstance(n, ast.AugAssign) and isinstance(n.op, ast.Add) and dotted(n.value) == "config.MIN_ID_INTERVAL"
                                       for n in walk_no_nested(adj.node))
    only_increases = adj is not None and not any(isinstance(n, ast.AugAssign) and isinstance(n.op, (ast.Sub, ast.FloorDiv, ast.Mod)) for n in walk_no_nested(adj.node))
    # interval analysis of adjust_node_id: the least amount by which the returned id exceeds the id passed in
    min_gain = _min_gain(adj, model) if adj is not None else None
    rep.analysed["adjust_node_id: least gain over its argument (interval analysis)"] = min_gain
    if min_gain is not None and offsets and min_gain < max(offsets):
        rep.violation("C03.R2", key, adj.module.rel, adj.node.lineno,
                      f"the unit-initialiser wrapper takes ids last_stmt_id + {sorted(offsets)} (the flattener's next free id and the ones after it), "
                      f"but adjust_node_id can return as little as its argument + {min_gain}: the next file then starts at an id the wrapper of this "
                      f"file already uses -- two statements of the project share one id")
    elif offsets and isinstance(gap, int) and max(offsets) < gap and adds_gap and only_increases and len(set(offsets)) == len(offsets):
        rep.holds("C03.R2", key, BASIC, amf.node.lineno, f"wrapper ids are last_stmt_id + {sorted(offsets)}; adjust_node_id adds MIN_ID_INTERVAL = {gap} and only rounds up "
                                                        f"(least gain {min_gain})")
    else:
        rep.violation("C03.R2", key, BASIC, amf.node.lineno,
                      f"the unit-initialiser wrapper takes ids last_stmt_id + {sorted(offsets)} but the gap adjust_node_id leaves is "
                      f"{gap if adds_gap else 'not MIN_ID_INTERVAL'}" + ("" if only_increases else " (and adjust_node_id can decrease the id)")
                      + ": the wrapper's ids collide with the first statements of the next file")
    # last_stmt_id is the maximum over *every* row
    key = f"{BASIC}::add_main_func::last_stmt_id is the maximum over all rows"
    cfg = cfg_of(amf.node)
    maxes = {n for n in cfg.g.nodes if cfg.kind[n] == "stmt" and isinstance(cfg.stmt[n], ast.Assign) and isinstance(cfg.stmt[n].targets[0], ast.Name)
             and cfg.stmt[n].targets[0].id == MAXID and isinstance(cfg.stmt[n].value, ast.Call) and call_name(cfg.stmt[n].value) == "max"}
    idx_incs = [n for n in cfg.g.nodes if cfg.kind[n] == "stmt" and isinstance(cfg.stmt[n], ast.AugAssign) and isinstance(cfg.stmt[n].target, ast.Name)
                and cfg.stmt[n].target.id == INDEX]
    bad = [n for n in idx_incs if not any(cfg.dominates(m_, n) and _same_iteration(cfg, m_, n) for m_ in maxes)]
    if maxes and not bad:
        rep.holds("C03.R2", key, BASIC, amf.node.lineno, f"each of the {len(idx_incs)} index advances is preceded by last_stmt_id = max(last_stmt_id, row id) in the same iteration")
    else:
        rep.violation("C03.R2", key, BASIC, cfg.stmt[bad[0]].lineno if bad else amf.node.lineno,
                      "a row is consumed without being folded into last_stmt_id: the wrapper's ids can collide with ids inside the unit")
    # adjust_node_id after every unit, on every path of the unit loop(s)
    runf = lang.methods.get("run")
    rcfg = cfg_of(runf.node)
    key = f"{LA}::LangAnalysis.run::gap applied after every unit"
    loops = [n for n in rcfg.g.nodes if rcfg.kind[n] == "iter"]
    adj_nodes = {n for n in rcfg.g.nodes for c in rcfg.calls_at(n) if is_self_attr(c.func, "adjust_node_id")}
    probs = []
    n_paths = 0
    for lp in loops:
        body = rcfg.loop_body_nodes[lp]
        saves = [n for n in body for c in rcfg.calls_at(n) if isinstance(c.func, ast.Attribute) and c.func.attr == "add_unit_gir"]
        for sv in saves:
            n_paths += 1
            if rcfg.path_avoiding(sv, lp, adj_nodes, within=body | {lp}) is not None:
                probs.append(f"line {rcfg.stmt[sv].lineno}: a unit's GIR is stored and the loop continues without adjust_node_id")
    if probs:
        rep.violation("C03.R2", key, LA, runf.node.lineno, "LangAnalysis.run: " + "; ".join(probs) + ": consecutive files receive overlapping id ranges")
    elif n_paths:
        rep.holds("C03.R2", key, LA, runf.node.lineno, f"{n_paths} store site(s); each is followed by current_node_id = adjust_node_id(current_node_id) before the next unit")
    else:
        rep.unknown("C03.R2", key, LA, runf.node.lineno, "no add_unit_gir call found in a loop")
    # the counter is threaded: flatten starts from the carried id and hands the next one back
    key = f"{LA}::GIRParser.deal_with_file_unit::counter threaded through the flattener"
    gpz = la.classes.get("GIRParser")
    dwf = gpz.methods.get("deal_with_file_unit") if gpz else None
    ok = dwf is not None and any(isinstance(n, ast.Assign) and isinstance(n.targets[0], ast.Tuple) and isinstance(n.targets[0].elts[0], ast.Name)
                                 and n.targets[0].elts[0].id == dwf.params[1] and "GIRProcessing(" + dwf.params[1] + ")" in norm(n.value) for n in walk_no_nested(dwf.node))
    (rep.holds if ok else rep.violation)("C03.R2", key, LA, dwf.node.lineno if dwf else 0,
                                         "current_node_id, rows = GIRProcessing(current_node_id).flatten(...)" if ok else
                                         "the id counter is not carried into and out of the flattener: every file starts from the same id")

    # ------------------------------------------------------------------ R3
    for f, where in ((gp.methods.get("flatten_block"), LA), (amf, BASIC)):
        if f is None:
            raise AnalysisError("flatten_block vanished")
        cfg = cfg_of(f.node)
        starts, ends = [], []
        for n in cfg.g.nodes:
            st = cfg.stmt.get(n)
            if cfg.kind[n] != "stmt":
                continue
            for x in ast.walk(st):
                if isinstance(x, ast.Dict):
                    if _dict_with(x, operation="block_start"):
                        starts.append((n, x))
                    if _dict_with(x, operation="block_end"):
                        ends.append((n, x))
        key = f"{where}::{f.qualname}::block_start/block_end paired"
        probs = []
        if len(starts) != 1 or len(ends) != 1:
            probs.append(f"{len(starts)} block_start and {len(ends)} block_end rows are emitted")
        else:
            (sn, sd), (en, ed) = starts[0], ends[0]
            sv = {const_str(k): norm(v) for k, v in zip(sd.keys, sd.values)}
            evv = {const_str(k): norm(v) for k, v in zip(ed.keys, ed.values)}
            if sv.get("stmt_id") != evv.get("stmt_id"):
                probs.append(f"the markers carry different ids ({sv.get('stmt_id')} vs {evv.get('stmt_id')})")
            if sv.get("parent_stmt_id") != evv.get("parent_stmt_id"):
                probs.append(f"the markers carry different parents ({sv.get('parent_stmt_id')} vs {evv.get('parent_stmt_id')})")
            if not cfg.dominates(sn, en):
                probs.append("block_end can be emitted without block_start before it")
            if cfg.path_avoiding(sn, cfg.EXIT, {en}) is not None:
                probs.append("a path emits block_start and reaches the exit without block_end")
            # both go to the same output list
            tgt_s = [c.func.value for c in cfg.calls_at(sn) if isinstance(c.func, ast.Attribute) and c.func.attr == "append"]
            tgt_e = [c.func.value for c in cfg.calls_at(en) if isinstance(c.func, ast.Attribute) and c.func.attr == "append"]
            if not (tgt_s and tgt_e and norm(tgt_s[0]) == norm(tgt_e[0])):
                probs.append("the two markers are appended to different lists")
            # children are emitted between
            between = [n for n in cfg.g.nodes if cfg.dominates(sn, n) and n not in (sn, en) and cfg.kind[n] in ("iter",) ]
            if not any(cfg.path_avoiding(b, cfg.EXIT, {en}) is None for b in between):
                probs.append("the children are not emitted between the two markers")
        (rep.violation if probs else rep.holds)("C03.R3", key, where, f.node.lineno,
                                                (f"{f.qualname}: " + "; ".join(probs)) if probs else "one start, one end, same id and parent, same list, children in between")

    # ------------------------------------------------------------------ R4
    cfg = cfg_of(amf.node)
    outer = [n for n in cfg.g.nodes if cfg.kind[n] == "test" and isinstance(cfg.stmt[n], ast.While)]
    outer.sort(key=lambda n: cfg.stmt[n].lineno)
    if not outer:
        raise AnalysisError("add_main_func: partition loop not found")
    oh = outer[0]
    lists = [TOP, REGULAR]
    app = {l: {n for n in cfg.g.nodes for c in cfg.calls_at(n) if isinstance(c.func, ast.Attribute) and c.func.attr == "append"
               and isinstance(c.func.value, ast.Name) and c.func.value.id == l} for l in lists}
    all_app = app[TOP] | app[REGULAR]
    incs = {n for n in cfg.g.nodes if cfg.kind[n] == "stmt" and isinstance(cfg.stmt[n], ast.AugAssign) and isinstance(cfg.stmt[n].target, ast.Name)
            and cfg.stmt[n].target.id == INDEX and is_const(cfg.stmt[n].value, 1)}
    key = f"{BASIC}::add_main_func::every row goes to exactly one list and the index advances"
    probs = []
    # every index advance is immediately preceded by an append in the same straight-line block (row kept), and vice versa
    for i in incs:
        preds = list(cfg.g.predecessors(i))
        if not any(p in all_app or any(q in all_app for q in cfg.g.predecessors(p)) for p in preds):
            probs.append(f"line {cfg.stmt[i].lineno}: the index advances past a row that was appended to neither list (row lost)")
    for a in all_app:
        if cfg.stmt[a].lineno > cfg.stmt[oh].end_lineno:
            continue
        succ = list(cfg.g.successors(a))
        nxt = set(succ) | {s2 for s_ in succ for s2 in cfg.g.successors(s_)}
        if not (nxt & incs):
            probs.append(f"line {cfg.stmt[a].lineno}: a row is appended without advancing the index (row duplicated)")
    within = cfg.loop_body_nodes[oh] | {oh}
    if cfg.path_avoiding(cfg.branch_of[(oh, "T")], oh, incs, within=within) is not None:
        probs.append("a path through the loop body does not advance the index")
    (rep.violation if probs else rep.holds)("C03.R4", key, BASIC, amf.node.lineno,
                                            ("add_main_func: " + "; ".join(probs)) if probs else
                                            f"{len(all_app)} appends, {len(incs)} index advances, paired one to one on every path")
    # the output is regular_stmts followed by wrapper + top_stmts in order
    key = f"{BASIC}::add_main_func::output = declarations, then the wrapper around the top-level code in source order"
    out_src = [n for n in walk_no_nested(amf.node) if isinstance(n, ast.Assign) and isinstance(n.targets[0], ast.Name) and n.targets[0].id == OUT]
    loop_top = [n for n in walk_no_nested(amf.node) if isinstance(n, ast.For) and isinstance(n.iter, ast.Name) and n.iter.id == TOP]
    ok = out_src and isinstance(out_src[-1].value, ast.Name) and out_src[-1].value.id == REGULAR and loop_top and any(
        isinstance(x, ast.Call) and isinstance(x.func, ast.Attribute) and x.func.attr == "append" and isinstance(x.func.value, ast.Name)
        and x.func.value.id == OUT for x in ast.walk(loop_top[0]))
    (rep.holds if ok else rep.violation)("C03.R4", key, BASIC, amf.node.lineno,
                                         "out_data = regular_stmts; ...; for stmt in top_stmts: out_data.append(stmt)" if ok else
                                         "the gathered top-level statements are not emitted in their original order after the declarations")
    key = f"{BASIC}::add_main_func::top-level rows are re-parented under the wrapper's block"
    # the wrapper's block id: the wrapper id used as stmt_id of the emitted block_start row
    body_ids = {v.id for n in walk_no_nested(amf.node) if isinstance(n, ast.Dict) and _dict_with(n, operation="block_start")
                for k, v in zip(n.keys, n.values) if k is not None and const_str(k) == "stmt_id" and isinstance(v, ast.Name) and v.id in wrapper_ids}
    rp = loop_top and any(isinstance(x, ast.Assign) and isinstance(x.targets[0], ast.Subscript) and const_str(x.targets[0].slice) == "parent_stmt_id"
                          and isinstance(x.value, ast.Name) and x.value.id in body_ids for x in ast.walk(loop_top[0]))
    (rep.holds if rp else rep.violation)("C03.R4", key, BASIC, amf.node.lineno,
                                         "parent 0 -> main_method_body_id" if rp else "top-level statements keep parent 0 inside the wrapper: they lie in no method block")

    # ------------------------------------------------------------------ R5
    fs = gp.methods.get("flatten_stmt")
    if fs is None:
        raise AnalysisError("flatten_stmt vanished")
    n_ok, bad = 0, None
    # the row being built: the dict handed to init_stmt_id (which numbers it)
    node_vars = {c.args[0].id for c in walk_no_nested(fs.node) if isinstance(c, ast.Call) and is_self_attr(c.func, "init_stmt_id") and c.args
                 and isinstance(c.args[0], ast.Name)}
    if not node_vars:
        raise AnalysisError("flatten_stmt: the row handed to init_stmt_id was not found")
    for n in walk_no_nested(fs.node):
        if isinstance(n, ast.Assign) and isinstance(n.value, ast.Call) and is_self_attr(n.value.func, "flatten_block"):
            parent_arg = n.value.args[1] if len(n.value.args) > 1 else None
            if isinstance(parent_arg, ast.Subscript) and const_str(parent_arg.slice) == "stmt_id" and isinstance(parent_arg.value, ast.Name) \
                    and parent_arg.value.id in node_vars:
                # the id is stored under the attribute's own key
                tvar = n.targets[0].id if isinstance(n.targets[0], ast.Name) else None
                stored = any(isinstance(x, ast.Assign) and isinstance(x.targets[0], ast.Subscript) and isinstance(x.targets[0].value, ast.Name)
                             and x.targets[0].value.id in node_vars
                             and isinstance(x.value, ast.Name) and x.value.id == tvar for x in walk_no_nested(fs.node))
                if stored:
                    n_ok += 1
                else:
                    bad = (n, "the returned block id is not stored in the statement's attribute")
            else:
                bad = (n, f"flatten_block is called with parent `{norm(parent_arg) if parent_arg is not None else None}`, not the owning statement's id")
    key = f"{LA}::GIRProcessing.flatten_stmt::block attributes own their blocks"
    if bad is not None:
        rep.violation("C03.R5", key, LA, bad[0].lineno, f"flatten_stmt: {bad[1]}")
    elif n_ok:
        rep.holds("C03.R5", key, LA, fs.node.lineno, f"{n_ok} site(s): block_id = flatten_block(value, flattened_node['stmt_id'], ...); flattened_node[key] = block_id")
    else:
        rep.unknown("C03.R5", key, LA, fs.node.lineno, "no flatten_block call in flatten_stmt")
    fb = gp.methods["flatten_block"]
    key = f"{LA}::GIRProcessing.flatten_block::children are parented by the block"
    # the block's id: what flatten_block returns
    ret_ids = {n.value.id for n in walk_no_nested(fb.node) if isinstance(n, ast.Return) and isinstance(n.value, ast.Name)}
    ok = any(isinstance(n, ast.Call) and is_self_attr(n.func, "flatten_stmt") and n.args and isinstance(n.args[-1], ast.Name) and n.args[-1].id in ret_ids
             for n in walk_no_nested(fb.node))
    (rep.holds if ok else rep.violation)("C03.R5", key, LA, fb.node.lineno,
                                         "flatten_stmt(child, ..., block_id)" if ok else "children of a block are not flattened with the block's id as parent")
    # information: return contract of flatten_stmt
    rep.info("C03.R5", f"{LA}::flatten_stmt::returns None for a non-dict statement or content", LA, fs.node.lineno,
             "the caller keeps the result as last_node and the next assign/call statement evaluates `\"operation\" in last_node`: a "
             "TypeError if a frontend ever appends a non-dict (not decided: needs the set of values frontends can append)")


def _same_iteration(cfg, a: int, b: int) -> bool:
    """a and b belong to the same innermost loop body."""
    la = [h for h, body in cfg.loop_body_nodes.items() if a in body]
    lb = [h for h, body in cfg.loop_body_nodes.items() if b in body]
    inner_a = min(la, key=lambda h: len(cfg.loop_body_nodes[h])) if la else None
    inner_b = min(lb, key=lambda h: len(cfg.loop_body_nodes[h])) if lb else None
    return inner_a == inner_b


# ---------------------------------------------------------------- self-test mutants
def _t(old, new, count=1):
    return lambda src: __import__("sa.mutate", fromlist=["x"]).text_replace(src, old, new, count)


MUTANTS = [
    ("import-names-unescaped", "events/default_event_handlers/basic.py", lambda src: __import__("sa.mutate", fromlist=["x"]).text_replace(src, "                old_name = re.escape(old_name)\n", ""),
     "C03.R6"),
    ("assign-id-no-increment", LA, _t("        previous = self.node_id\n        self.node_id += 1\n        return previous", "        previous = self.node_id\n        return previous"), "assign_id"),
    ("gap-too-small", "config/config.py", lambda src: __import__("re").sub(r"(MIN_ID_INTERVAL\s*=\s*)10", r"\g<1>2", src, count=1), "fit into the inter-unit gap"),
    ("wrapper-offset-bigger", BASIC, _t("    main_method_body_id = last_stmt_id + 2", "    main_method_body_id = last_stmt_id + 12"), "fit into the inter-unit gap"),
    ("gap-not-applied", LA, _t("            gir_parser.add_unit_gir(unit_info, gir)\n            current_node_id = self.adjust_node_id(current_node_id)",
                               "            gir_parser.add_unit_gir(unit_info, gir)"), "gap applied after every unit"),
    ("block-end-other-parent", LA, _t('dataframe.append({"operation": "block_end", "stmt_id": block_id, "parent_stmt_id": parent_stmt_id})',
                                      'dataframe.append({"operation": "block_end", "stmt_id": block_id, "parent_stmt_id": block_id})'), "flatten_block::block_start"),
    ("block-end-conditional", LA, _t('        dataframe.append({"operation": "block_end", "stmt_id": block_id, "parent_stmt_id": parent_stmt_id})',
                                     '        if block:\n            dataframe.append({"operation": "block_end", "stmt_id": block_id, "parent_stmt_id": parent_stmt_id})'), "flatten_block::block_start"),
    ("partition-row-lost", BASIC, _t("        else:\n            regular_stmts.append(stmt)\n            index += 1\n    out_data = regular_stmts",
                                     "        else:\n            index += 1\n    out_data = regular_stmts"), "exactly one list"),
    ("inner-rows-not-maxed", BASIC, _t("                    last_stmt_id = max(last_stmt_id, cur_top_stmt[\"stmt_id\"])\n", ""), "last_stmt_id is the maximum"),
    ("top-stmts-reversed", BASIC, _t("    for stmt in top_stmts:\n        if stmt[\"parent_stmt_id\"] == 0:", "    for stmt in reversed(top_stmts):\n        if stmt[\"parent_stmt_id\"] == 0:"), "source order"),
    ("block-parent-is-grandparent", LA, _t('block_id = self.flatten_block(myvalue, flattened_node["stmt_id"], dataframe)\n                    flattened_node[mykey] = block_id\n\n',
                                           'block_id = self.flatten_block(myvalue, parent_stmt_id, dataframe)\n                    flattened_node[mykey] = block_id\n\n'), "block attributes own"),
    ("id-chosen-elsewhere", "events/default_event_handlers/add_var_decl.py",
     lambda src: src.replace("def remove_unnecessary_tmp_variables_in_list(stmts: list):", "def _renumber(rows):\n    for i, r in enumerate(rows):\n        r[\"stmt_id\"] = i\n\ndef remove_unnecessary_tmp_variables_in_list(stmts: list):", 1),
     "_renumber"),
]
