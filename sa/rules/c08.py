"""C08 -- abstract values cover concrete values; literal text is only data (DESIGN section 3, C08).

Coverage of concrete values is a soundness statement about an abstract interpreter: not static.
Decided for the second sentence: text of the analysed program never reaches an evaluator (R1, R3)
or a regular-expression compiler (R2) of lian itself.
"""
from __future__ import annotations

import ast
from typing import Dict, List, Optional, Set, Tuple

from ..astutil import is_const
from ..cfg import cfg_of
from ..model import AnalysisError, Func, RepoModel, call_name, const_str, dotted, is_self_attr, literal, norm, walk_no_nested

EVAL_SINKS = {"eval", "exec", "util.strict_eval", "strict_eval", "self.common_eval", "common_eval"}
RE_FUNCS = {"compile", "search", "sub", "subn", "match", "fullmatch", "findall", "finditer", "split"}


def frontend_node_types(cls) -> Set[str]:
    """node type names a frontend dispatches on: keys of the handler-map dict literals of its Parser class."""
    out: Set[str] = set()
    for f in cls.methods.values():
        for n in walk_no_nested(f.node):
            if isinstance(n, ast.Dict) and len(n.keys) >= 3 and all(k is not None and const_str(k) is not None for k in n.keys) \
                    and all(is_self_attr(v) for v in n.values):
                out |= {const_str(k) for k in n.keys}
    return out


def _program_text_parts(e, f: Func, depth: int = 0) -> List[str]:
    """which program-derived pieces make up string expression ``e`` (read_node_text results, parsed operands,
    statement/state attributes)."""
    parts: List[str] = []
    if depth > 4:
        return ["?"]
    if isinstance(e, ast.JoinedStr):
        for v in e.values:
            if isinstance(v, ast.FormattedValue):
                parts += _program_text_parts(v.value, f, depth + 1) or [norm(v.value)]
        return parts
    if isinstance(e, ast.BinOp) and isinstance(e.op, ast.Add):
        return _program_text_parts(e.left, f, depth + 1) + _program_text_parts(e.right, f, depth + 1)
    if isinstance(e, ast.Call):
        cn = call_name(e) or ""
        if cn == "str" and e.args:
            return _program_text_parts(e.args[0], f, depth + 1) or [norm(e.args[0])]
        if cn.endswith("read_node_text") or cn.endswith(".parse") or cn.endswith("escape_string"):
            return [norm(e)]
        return []
    if isinstance(e, ast.Name):
        defs = [n.value for n in walk_no_nested(f.node) if isinstance(n, ast.Assign) and any(isinstance(t, ast.Name) and t.id == e.id for t in n.targets)]
        out: List[str] = []
        for d in defs[:6]:
            if isinstance(d, ast.Constant):
                continue
            sub = _program_text_parts(d, f, depth + 1)
            out += sub if sub else ([e.id] if not isinstance(d, ast.Constant) else [])
        if not defs and e.id in f.params:
            out.append(e.id)
        return out or ([e.id] if defs else [])
    if isinstance(e, ast.Attribute):
        return [norm(e)]
    if isinstance(e, ast.Subscript):
        return _program_text_parts(e.value, f, depth + 1)
    return []


def run(model: RepoModel, rep, tier: str):
    rep.not_decided = ("soundness of states, field/element maps and aliasing (coverage of concrete values by abstract ones); the cost of "
                       "evaluating a single numeric literal token")
    rep.rule("C08.R1", "program text is never evaluated: an evaluator only receives a single literal token of the analysed program, "
                       "never a string assembled from operands and an operator taken from it", 8)
    rep.rule("C08.R2", "program text never becomes a regular expression except through re.escape", 10)
    rep.rule("C08.R3", "the guarded evaluator compiles in expression mode, scans the code object and evaluates with empty scopes", 1)

    # ------------------------------------------------------------------ R1
    n_sites = 0
    for rel, m in sorted(model.modules.items()):
        for f in m.all_funcs():
            if f.name in ("strict_eval", "common_eval"):
                continue   # the evaluators themselves (R3)
            for c in model.calls_in(f):
                cn = call_name(c) or ""
                if cn not in EVAL_SINKS or not c.args:
                    continue
                n_sites += 1
                arg = c.args[0]
                parts = list(dict.fromkeys(_program_text_parts(arg, f)))
                key = f"{f.ref}::`{cn}({norm(arg)})`"
                composed = isinstance(arg, (ast.JoinedStr, ast.BinOp))
                if isinstance(arg, ast.Name):
                    # definitions that can reach the call: assigned earlier in the function (the call's own statement re-binds the name)
                    defs = [n.value for n in walk_no_nested(f.node) if isinstance(n, ast.Assign) and n.lineno < c.lineno
                            and any(isinstance(t, ast.Name) and t.id == arg.id for t in n.targets) and not any(x is c for x in ast.walk(n.value))]
                    in_loop_later = [n.value for n in walk_no_nested(f.node) if isinstance(n, ast.Assign) and n.lineno >= c.lineno
                                     and any(isinstance(t, ast.Name) and t.id == arg.id for t in n.targets) and not any(x is c for x in ast.walk(n.value))
                                     and any(isinstance(l, (ast.For, ast.While)) and any(y is n for y in ast.walk(l)) and any(y is c for y in ast.walk(l))
                                             for l in walk_no_nested(f.node))]
                    defs = defs + in_loop_later
                    composed = composed or any(isinstance(d, (ast.JoinedStr, ast.BinOp)) for d in defs)
                    single = bool(defs) and all(isinstance(d, ast.Call) and (call_name(d) or "").endswith("read_node_text") for d in defs
                                                if not isinstance(d, ast.Constant))
                else:
                    single = isinstance(arg, ast.Call) and (call_name(arg) or "").endswith("read_node_text")
                if single and not composed:
                    rep.holds("C08.R1", key, rel, c.lineno, "the evaluated string is the text of one literal node")
                    continue
                if not composed:
                    rep.unknown("C08.R1", key, rel, c.lineno, f"argument provenance not classified (parts: {parts[:4]})")
                    continue
                # liveness: is the site guarded by a node-type test on a type this frontend's grammar never produces?
                dead = None
                if f.cls is not None and rel.startswith("lang/"):
                    types = frontend_node_types(f.cls)
                    for n in walk_no_nested(f.node):
                        if isinstance(n, ast.If) and any(isinstance(b, ast.Return) for b in n.body):
                            for cmp_ in ast.walk(n.test):
                                if isinstance(cmp_, ast.Compare) and dotted(cmp_.left) and (dotted(cmp_.left) or "").endswith(".type") \
                                        and isinstance(cmp_.ops[0], ast.NotEq) and const_str(cmp_.comparators[0]) is not None:
                                    t = const_str(cmp_.comparators[0])
                                    if types and t not in types and n.lineno < c.lineno:
                                        dead = t
                esc = None if dead else _escaped_composition(f, c, arg)
                if esc is not None and esc[0]:
                    rep.holds("C08.R1", key, rel, c.lineno, esc[1])
                elif dead:
                    rep.holds("C08.R1", key, rel, c.lineno,
                              f"unreachable on this grammar: the function returns unless node.type == \"{dead}\", a node type the frontend's "
                              f"handler maps never dispatch on (the composed evaluation is dead code)")
                else:
                    why = f" [{esc[1]}]" if esc is not None else ""
                    rep.violation("C08.R1", key, rel, c.lineno,
                                  f"{f.ref} evaluates `{norm(arg)}`{why}, a string assembled from text of the analysed program "
                                  f"({', '.join(parts[:4])}): operand and operator text decide what lian executes -- `9 ** 99999999 ** 2`-style "
                                  f"constants make the run time unbounded, and quote characters in a string constant change the expression")
    rep.analysed["evaluator call sites"] = n_sites

    from .. import generic8
    rep.rule("C08.R10", "a computed 0 stays in the abstract value: in the state-level constant folder the presence of an operand value or of the "
                        "folded result is tested through the availability helper, never by truthiness", 1)
    generic8.check_value_presence_tests(model, rep, "C08.R10")
    check_regex_escape(model, rep, "C08.R2")

    # ------------------------------------------------------------------ R3
    um = model.module("util/util.py")
    se = um.functions.get("strict_eval")
    if se is None:
        raise AnalysisError("util.strict_eval vanished")
    cfg = cfg_of(se.node)
    comp = [n for n in cfg.g.nodes for c in cfg.calls_at(n) if call_name(c) == "compile"]
    evs = [n for n in cfg.g.nodes for c in cfg.calls_at(n) if call_name(c) == "eval"]
    scans = [n for n in cfg.g.nodes if cfg.kind[n] == "iter" and "get_instructions" in norm(cfg.stmt[n].iter)]
    key = "util/util.py::strict_eval::compile(eval mode) -> scan -> eval with empty scopes"
    probs = []
    if not comp or not evs:
        probs.append("compile/eval not found")
    else:
        cc = [c for c in cfg.calls_at(comp[0]) if call_name(c) == "compile"][0]
        if not (len(cc.args) >= 3 and const_str(cc.args[2]) == "eval"):
            probs.append("the text is not compiled in 'eval' (expression only) mode")
        ec = [c for c in cfg.calls_at(evs[0]) if call_name(c) == "eval"][0]
        if not (len(ec.args) == 3 and all(isinstance(a, ast.Dict) and not a.keys for a in ec.args[1:])):
            probs.append("eval is not called with empty globals and locals")
        if not scans or not cfg.dominates(scans[0], evs[0]):
            probs.append("the bytecode scan does not precede the evaluation")
        else:
            body = cfg.loop_body_nodes[scans[0]]
            rejects = False
            for n in body:
                st_ = cfg.stmt.get(n)
                stops = isinstance(st_, ast.Raise) or any((call_name(x) or "").endswith("error_and_quit") for x in cfg.calls_at(n))
                if stops and any(truth and "CALL" in norm(atom) for atom, truth in cfg.conditions_at(n)):
                    rejects = True
            if not rejects:
                probs.append("the scan no longer rejects CALL opcodes")
    (rep.violation if probs else rep.holds)("C08.R3", key, "util/util.py", se.node.lineno,
                                            ("strict_eval: " + "; ".join(probs) + ": a constant of the analysed program can call into the interpreter") if probs else
                                            "expression-mode compile, CALL opcodes rejected before eval(content, {}, {})")


    check_accumulating_loops(model, rep, "C08.R4")
    from .c10 import check_summary_accumulates
    check_summary_accumulates(model, rep, "C08.R7", declare=True)
    _r8_value_plumbing(model, rep)
    # ------------------------------------------------------------------ R9 field maps of objects that cross a call
    from ..generic2 import check_side_pairing
    from .c09 import check_copy_on_write
    rep.rule("C08.R9", "an object's field map survives a call: when a callee's summary is merged into the caller's argument state the summary "
                       "side and the argument side are not crossed, and the resolver that refreshes states to their newest versions writes the "
                       "refreshed field/element maps into the copy it creates, never into the state it copied from", 6)
    check_side_pairing(model, rep, "C08.R9", ["core/stmt_states.py", "core/global_stmt_states.py", "core/resolver.py"])
    _r9_widening_keeps_children(model, rep)
    from ..generic import check_dict_merge_in_loops
    check_dict_merge_in_loops(model, rep, "C08.R9", ["core/stmt_states.py", "core/global_stmt_states.py", "core/prelim_semantics.py", "core/resolver.py"])
    check_copy_on_write(model, rep, "C08.R9", [c for c in model.module("core/resolver.py").classes.values() if c.name == "Resolver"])
    from ..generic import check_accumulators

    def _widening(x, guards, pre, fnode=None):
        return fnode is not None and is_widened(fnode, guards, pre)
    check_accumulators(model, rep, "C08.R6", [SS, GSS, "core/resolver.py", "core/prelim_semantics.py", "core/global_semantics.py"], C08_ADJUDICATED,
                       "states, callees or summary entries that reach this point on some path are missing from the computed set (the abstract "
                       "value no longer covers them)", 40, widening=_widening)

    # ------------------------------------------------------------------ R5
    rep.rule("C08.R5", "a rejected evaluation cannot stop the analyser: when the guarded evaluator rejects by exiting the process, every "
                       "call of it sits in a try whose handler also catches SystemExit (bare except / BaseException)", 2)
    exits = any(isinstance(x, ast.Call) and ((call_name(x) or "").endswith("error_and_quit") or call_name(x) in ("sys.exit", "exit", "quit", "os._exit"))
                for x in walk_no_nested(se.node))
    n_sites = 0
    for mod in model.modules.values():
        for f in mod.all_funcs():
            if f.node is se.node:
                continue
            enc = None
            for c in walk_no_nested(f.node):
                if not (isinstance(c, ast.Call) and call_name(c) in ("util.strict_eval", "strict_eval")):
                    continue
                n_sites += 1
                if enc is None:
                    from ..model import enclosing_map
                    enc = enclosing_map(f.node)
                key = f"{mod.rel}::{f.qualname}::strict_eval rejection is contained"
                cur, handlers = c, None
                while id(cur) in enc:
                    par = enc[id(cur)]
                    if isinstance(par, ast.Try) and cur in par.body:
                        handlers = par.handlers
                        break
                    cur = par
                if not exits:
                    rep.holds("C08.R5", key, mod.rel, c.lineno, "strict_eval rejects by raising, not by exiting")
                    continue
                if handlers is None:
                    rep.violation("C08.R5", key, mod.rel, c.lineno,
                                  "strict_eval rejects text that compiles to a call by exiting the process (error_and_quit -> sys.exit), and this "
                                  "call is not inside a try: a string constant of the analysed program such as 'x\" + f() + \"' ends the analysis")
                    continue

                def catches_exit(h):
                    if h.type is None:
                        return True
                    ts = h.type.elts if isinstance(h.type, ast.Tuple) else [h.type]
                    return any((dotted(t) or "").split(".")[-1] in ("BaseException", "SystemExit") for t in ts)
                if any(catches_exit(h) for h in handlers):
                    rep.holds("C08.R5", key, mod.rel, c.lineno, "enclosing try catches SystemExit (bare except / BaseException)")
                else:
                    what = ", ".join(norm(h.type) for h in handlers if h.type is not None)
                    rep.violation("C08.R5", key, mod.rel, c.lineno,
                                  f"strict_eval rejects text that compiles to a call by exiting the process (error_and_quit -> sys.exit raises "
                                  f"SystemExit), but the enclosing try only catches `{what}`: a string constant of the analysed program whose text "
                                  f"contains call syntax terminates the whole analysis instead of being treated as data")
    if n_sites < 2:
        raise AnalysisError(f"only {n_sites} strict_eval call site(s) found (common_eval and the state-level folder expected)")



def _string_type_atom(t, fnode, depth=0) -> bool:
    """t (polarity stripped) tests only whether a value is of the string type: a comparison with ...STRING, or a flag
    that is only ever assigned bool constants and is set True under such a test."""
    while isinstance(t, ast.UnaryOp) and isinstance(t.op, ast.Not):
        t = t.operand
    if isinstance(t, ast.Compare) and len(t.ops) == 1 and isinstance(t.ops[0], (ast.Eq, ast.NotEq, ast.Is, ast.IsNot)):
        return any((dotted(x) or "").endswith(".STRING") or (dotted(x) or "") == "STRING" for x in (t.left, t.comparators[0]))
    if isinstance(t, ast.BoolOp):
        return all(_string_type_atom(v, fnode, depth) for v in t.values)
    if isinstance(t, ast.Name) and depth < 3:
        asg = [(n, i) for i in walk_no_nested(fnode) if isinstance(i, ast.If) for n in ast.walk(i)
               if isinstance(n, ast.Assign) and any(isinstance(x, ast.Name) and x.id == t.id for x in n.targets)]
        alla = [n for n in walk_no_nested(fnode) if isinstance(n, ast.Assign) and any(isinstance(x, ast.Name) and x.id == t.id for x in n.targets)]
        if not alla or not all(isinstance(n.value, ast.Constant) and isinstance(n.value.value, bool) for n in alla):
            return False
        trues = [n for n in alla if n.value.value is True]
        if not trues:
            return False
        # every True-assignment sits directly under a string-type test
        for n in trues:
            holders = [i for (m, i) in asg if m is n and any(b is n for b in i.body)]
            if not holders or not all(_string_type_atom(i.test, fnode, depth + 1) for i in holders):
                return False
        return True
    return False


def _escaped_composition(f: Func, c: ast.Call, arg):
    """A composed evaluation is acceptable when every operand that can be text of a string constant reaches the evaluator through
    repr() -- the quoting function of the evaluated language, so every character of the constant stays data -- and only operands
    known not to be string-typed are interpolated raw.  Decided on the CFG: for each interpolated variable, every definition that
    reaches the call is (a) `repr(...)`, or (b) raw but only on paths where a string-type test of that operand is false."""
    if not isinstance(arg, ast.JoinedStr):
        return None
    fv = [v.value for v in arg.values if isinstance(v, ast.FormattedValue)]
    names = [v.id for v in fv if isinstance(v, ast.Name)]
    if len(names) != len(fv) or not names:
        return (False, "an interpolated part is not a plain variable")
    cfg = cfg_of(f.node)
    try:
        e_node = cfg.node_of(c) if hasattr(cfg, "node_of") else None
    except Exception:
        e_node = None
    if e_node is None:
        for n in cfg.g.nodes:
            if any(x is c for x in cfg.calls_at(n)):
                e_node = n
                break
    if e_node is None:
        return None
    ifs = [i for i in walk_no_nested(f.node) if isinstance(i, ast.If)]

    def is_repr(v):
        return isinstance(v, ast.Call) and call_name(v) == "repr" and len(v.args) == 1

    escaped_any = False
    for name in dict.fromkeys(names):
        dnodes = {}
        for n in cfg.g.nodes:
            st = cfg.stmt.get(n)
            if isinstance(st, ast.Assign) and cfg.kind.get(n) not in ("iter",) and any(isinstance(t, ast.Name) and t.id == name for t in st.targets):
                dnodes[n] = st
        if not dnodes:
            # a parameter or attribute text: operator tokens (stmt.operator) are accepted only when never string-typed data
            continue
        reaching = [n for n in dnodes if cfg.path_avoiding(n, e_node, set(dnodes) - {n}) is not None]
        reprs = [n for n in reaching if is_repr(dnodes[n].value)]
        if not reprs:
            # a variable that never carries escaped text: accepted only if no definition derives from a value field
            srcs = {x.id for n in reaching for x in ast.walk(dnodes[n].value) if isinstance(x, ast.Name)} | \
                   {norm(x) for n in reaching for x in ast.walk(dnodes[n].value) if isinstance(x, ast.Attribute)}
            if any(s_.endswith("operator") for s_ in srcs) and all(s_.endswith("operator") or s_ in ("stmt",) for s_ in srcs):
                continue   # the operator token of the statement
            return (False, f"`{name}` reaches the evaluator without passing through repr()")
        escaped_any = True
        for n in reaching:
            if n in reprs:
                continue
            st = dnodes[n]
            ok = False
            # (i) the raw definition is the else/then arm of an If whose whole test is a string-type test, the repr definition in the other arm
            for i in ifs:
                in_body = any(x is st for b in i.body for x in ast.walk(b))
                in_else = any(x is st for b in i.orelse for x in ast.walk(b))
                if not (in_body or in_else):
                    continue
                other = i.orelse if in_body else i.body
                if _string_type_atom(i.test, f.node) and any(is_repr(a.value) for b in other for a in ast.walk(b)
                                                              if isinstance(a, ast.Assign) and any(isinstance(t, ast.Name) and t.id == name for t in a.targets)):
                    ok = True
            # (ii) a later conditional re-definition `if <string-type test>: name = repr(...)` that every path from the raw definition to the call meets
            if not ok:
                guards = []
                for i in ifs:
                    if _string_type_atom(i.test, f.node) and not i.orelse and i.lineno > st.lineno:
                        for a in i.body:
                            if isinstance(a, ast.Assign) and is_repr(a.value) and any(isinstance(t, ast.Name) and t.id == name for t in a.targets):
                                guards.append(i)
                gnodes = set()
                for i in guards:
                    try:
                        gnodes.add(cfg.node(i))
                    except Exception:
                        pass
                if gnodes and cfg.path_avoiding(n, e_node, gnodes) is None:
                    ok = True
            if not ok:
                return (False, f"`{name} = {norm(st.value)}` (line {st.lineno}) reaches the evaluator raw on a path where the operand can be string-typed")
    if not escaped_any:
        return (False, "no operand is escaped")
    return (True, "composed evaluation, but every operand that can be the text of a string constant is quoted by repr() on every path to "
                  "the evaluator (raw interpolation only where a string-type test of the operand is false); the operator is the statement's "
                  "operator token; size of the evaluation is decided by C13.R7")


def check_regex_escape(model: RepoModel, rep, RID: str, only=None):
    """Every regular expression built from a variable is escaped (shared by C08.R2 and C03.R6: an unescaped name from the analysed
    program raises re.error in the language phase).  ``only``: restrict to these module paths."""
    n_re = 0
    for rel, m in sorted(model.modules.items()):
        if only is not None and not any(rel == o or rel.startswith(o) for o in only):
            continue
        for f in m.all_funcs():
            for c in model.calls_in(f):
                cn = call_name(c) or ""
                if not (cn.startswith("re.") and cn.split(".")[1] in RE_FUNCS and c.args):
                    continue
                pat = c.args[0]
                n_re += 1
                key = f"{f.ref}::`{cn}({norm(pat)[:60]})`"
                if isinstance(pat, ast.Constant):
                    rep.holds(RID, key, rel, c.lineno, "constant pattern")
                    continue

                def var_parts(e) -> List[ast.AST]:
                    if isinstance(e, ast.JoinedStr):
                        return [v.value for v in e.values if isinstance(v, ast.FormattedValue)]
                    if isinstance(e, ast.BinOp):
                        return var_parts(e.left) + var_parts(e.right)
                    if isinstance(e, ast.Constant):
                        return []
                    return [e]

                def is_escaped_or_const(v) -> bool:
                    if isinstance(v, ast.Call) and call_name(v) == "re.escape":
                        return True
                    if isinstance(v, ast.Name):
                        defs = [n.value for n in walk_no_nested(f.node) if isinstance(n, ast.Assign) and any(isinstance(t, ast.Name) and t.id == v.id for t in n.targets)]
                        # nested functions see the enclosing function's locals
                        if not defs:
                            for g in m.all_funcs():
                                if any(x is f.node for x in ast.walk(g.node)) and g is not f:
                                    defs = [n.value for n in walk_no_nested(g.node) if isinstance(n, ast.Assign) and any(isinstance(t, ast.Name) and t.id == v.id for t in n.targets)]
                        if defs and all(isinstance(d, ast.Constant) or (isinstance(d, ast.Call) and call_name(d) == "re.escape")
                                        or (isinstance(d, ast.JoinedStr) and all(is_escaped_or_const(x.value) for x in d.values if isinstance(x, ast.FormattedValue)))
                                        for d in defs):
                            return True
                        # loop variable over a constant table of lian itself
                        for n in ast.walk(f.node):
                            if isinstance(n, (ast.For, ast.comprehension)) and isinstance(n.target, ast.Name) and n.target.id == v.id:
                                it = n.iter
                                if is_self_attr(it) or (isinstance(it, ast.Name) and it.id.isupper()):
                                    return True
                        return False
                    if isinstance(v, ast.Attribute) and (dotted(v) or "").split(".")[0] in ("config", "constants"):
                        return True
                    return False

                vs = var_parts(pat)
                bad = [v for v in vs if not is_escaped_or_const(v)]
                if not bad:
                    rep.holds(RID, key, rel, c.lineno, f"{len(vs)} variable part(s), each a constant of lian or wrapped in re.escape")
                else:
                    # where does the unescaped part come from?  parameters fed from settings / rules are configuration, not program text
                    src = norm(bad[0])
                    if rel in ("util/loader.py", "externs/extern_system.py"):
                        rep.info(RID, key, rel, c.lineno, f"pattern part `{src}` comes from a query argument / rule file, not from the analysed program")
                    else:
                        rep.violation(RID, key, rel, c.lineno,
                                      f"{f.ref} builds a regular expression from `{src}` without re.escape: names from the analysed program "
                                      f"(e.g. containing `.`, `(`, `$`) change what is matched or raise re.error")
    rep.analysed[f"regex call sites ({RID})"] = n_re
    return n_re



def _r9_widening_keeps_children(model: RepoModel, rep):
    """Flattening a state ("tangping") replaces its field and element maps by one bag of children.  The maps are emptied, so on every
    path to the point where a map is emptied its contents must have been moved into the bag -- whatever flags the caller set before."""
    SS_ = "core/stmt_states.py"
    st = model.module(SS_).classes.get("StmtStates")
    f = st.methods.get("make_state_tangping") if st else None
    if f is None or len(f.params) < 2:
        raise AnalysisError("StmtStates.make_state_tangping vanished")
    P = f.params[1]
    cfg = cfg_of(f.node)
    n = 0
    for attr in ("array", "fields"):
        clears = [nd for nd in cfg.g.nodes if cfg.kind[nd] == "stmt" and isinstance(cfg.stmt[nd], ast.Assign) and any(
            isinstance(t, ast.Attribute) and t.attr == attr and isinstance(t.value, ast.Name) and t.value.id == P for t in cfg.stmt[nd].targets)]
        folds = [nd for nd in cfg.g.nodes if cfg.kind[nd] == "iter" and any(isinstance(x, ast.Attribute) and x.attr == attr and isinstance(x.value, ast.Name)
                                                                           and x.value.id == P for x in ast.walk(cfg.stmt[nd].iter))
                 and any(isinstance(c, ast.Call) and isinstance(c.func, ast.Attribute) and c.func.attr in ("update", "add") and "tangping_elements" in norm(c.func.value)
                         for c in ast.walk(cfg.stmt[nd]))]
        key = f"{SS_}::StmtStates.make_state_tangping::`{P}.{attr}` is moved into the bag before it is emptied"
        if not clears:
            continue
        n += 1
        bad = next((p_ for cl in clears for p_ in [cfg.path_avoiding(cfg.ENTRY, cl, set(folds))] if p_ is not None), None)
        if bad is None and folds:
            rep.holds("C08.R9", key, SS_, cfg.stmt[clears[0]].lineno, f"every path to `{norm(cfg.stmt[clears[0]])}` passes the loop that moves the children")
        else:
            rep.violation("C08.R9", key, SS_, cfg.stmt[clears[0]].lineno,
                          f"`{norm(cfg.stmt[clears[0]])}` can be reached without the children of `{P}.{attr}` having been moved into tangping_elements "
                          f"({' -> '.join(cfg.describe_path(bad)[-6:]) if bad else 'no loop moves them'}): callers that mark the state as flattened before "
                          f"calling (the merge of two versions of an object at a join) lose every field value -- a read of that field after the join "
                          f"no longer covers what was written")
    if not n:
        raise AnalysisError("make_state_tangping no longer empties the array / fields maps")


def _r8_value_plumbing(model: RepoModel, rep):
    """C08.R8: three small places where a value or an index is carried from one representation to another; each must be total."""
    rep.rule("C08.R8", "values are carried over unchanged: a string constant is unquoted by position (one character at each end), never by "
                       "strip/replace; relocating a callee's indexes into the global space skips only the sentinel -1; the newest versions of "
                       "a state are all its reaching definitions (the held index alone is used only when none reaches)", 4)
    # (a) unquoting
    du = model.module("basics/stmt_def_use_analysis.py")
    f = next((c.methods["adjust_constant_string"] for c in du.classes.values() if "adjust_constant_string" in c.methods), None)
    key = "basics/stmt_def_use_analysis.py::adjust_constant_string::unquoted by position"
    if f is None:
        raise AnalysisError("adjust_constant_string vanished")
    p = f.params[1] if len(f.params) > 1 else "value"
    eats = [c for c in walk_no_nested(f.node) if isinstance(c, ast.Call) and isinstance(c.func, ast.Attribute)
            and c.func.attr in ("strip", "lstrip", "rstrip", "replace", "translate", "removeprefix", "removesuffix") and isinstance(c.func.value, ast.Name) and c.func.value.id == p]
    slices = [r for r in walk_no_nested(f.node) if isinstance(r, ast.Return) and isinstance(r.value, ast.Subscript) and isinstance(r.value.slice, ast.Slice)]
    ok_slice = any(isinstance(r.value.slice.lower, ast.Constant) and r.value.slice.lower.value == 1 and isinstance(r.value.slice.upper, ast.UnaryOp)
                   and isinstance(r.value.slice.upper.operand, ast.Constant) and r.value.slice.upper.operand.value == 1 for r in slices)
    if eats:
        rep.violation("C08.R8", key, du.rel, eats[0].lineno,
                      f"the quotes of a string constant are removed with `{norm(eats[0])}`: every further quote character at the ends of the "
                      f"content (a text ending in an escaped quote) is removed too, so the abstract value is not the program's string")
    elif ok_slice:
        rep.holds("C08.R8", key, du.rel, slices[0].lineno, f"`{norm(slices[0].value)}`")
    else:
        rep.unknown("C08.R8", key, du.rel, f.node.lineno, "unquoting not recognised")
    # (a') the length guard admits the shortest quoted text: two quote characters around nothing
    if ok_slice:
        import operator as _op
        OPS = {ast.Gt: _op.gt, ast.GtE: _op.ge, ast.Lt: _op.lt, ast.LtE: _op.le, ast.Eq: _op.eq, ast.NotEq: _op.ne}
        fcfg = cfg_of(f.node)
        r0 = next(r for r in slices if isinstance(r.value.slice.lower, ast.Constant))
        key2 = "basics/stmt_def_use_analysis.py::adjust_constant_string::the empty string literal is unquoted too"
        verdict = None
        for atom, truth in fcfg.conditions_at(fcfg.node(r0)):
            if isinstance(atom, ast.Compare) and len(atom.ops) == 1 and type(atom.ops[0]) in OPS:
                l, r = atom.left, atom.comparators[0]
                is_len = lambda x: isinstance(x, ast.Call) and call_name(x) == "len" and x.args and isinstance(x.args[0], ast.Name) and x.args[0].id == p
                if is_len(l) and isinstance(r, ast.Constant) and isinstance(r.value, int):
                    holds_at_2 = OPS[type(atom.ops[0])](2, r.value)
                elif is_len(r) and isinstance(l, ast.Constant) and isinstance(l.value, int):
                    holds_at_2 = OPS[type(atom.ops[0])](l.value, 2)
                else:
                    continue
                if holds_at_2 != truth:
                    verdict = atom
        if verdict is not None:
            rep.violation("C08.R8", key2, du.rel, verdict.lineno,
                          f"the unquoting `{norm(r0.value)}` removes two characters but is guarded by `{norm(verdict)}`, which excludes a text of "
                          f"exactly two characters: the empty string literal keeps its quotes, so the abstract value of `s = \"\"` is a "
                          f"two-character string and `\"\" + x`, `len(\"\")`, comparisons with it are computed wrongly")
        else:
            rep.holds("C08.R8", key2, du.rel, r0.lineno, "every length test on the way to the slice admits length 2")
    # (b) index relocation
    gs = model.module("core/global_semantics.py")
    g = next((c.methods["adjust_index_of_status_space"] for c in gs.classes.values() if "adjust_index_of_status_space" in c.methods), None)
    if g is None:
        raise AnalysisError("adjust_index_of_status_space vanished")
    base = g.params[1]
    n_g = 0
    gcfg = cfg_of(g.node)
    for node in gcfg.g.nodes:
        st = gcfg.stmt.get(node)
        if gcfg.kind[node] != "stmt" or not isinstance(st, ast.Assign) or not isinstance(st.value, ast.BinOp) or not isinstance(st.value.op, ast.Add) \
                or not any(isinstance(y, ast.Name) and y.id == base for y in (st.value.left, st.value.right)):
            continue
        val = next((y.id for y in (st.value.left, st.value.right) if isinstance(y, ast.Name) and y.id != base), None)
        conds = [(a, tr) for a, tr in gcfg.conditions_at(node) if isinstance(a, ast.Compare) and len(a.ops) == 1
                 and any(isinstance(x, ast.Name) and x.id == val for x in (a.left, a.comparators[0]))]
        if not conds:
            continue
        for a, tr in conds:
            n_g += 1
            other = a.comparators[0] if isinstance(a.left, ast.Name) and a.left.id == val else a.left
            flipped = not (isinstance(a.left, ast.Name) and a.left.id == val)
            cval = -other.operand.value if isinstance(other, ast.UnaryOp) and isinstance(other.op, ast.USub) and isinstance(other.operand, ast.Constant) else (
                other.value if isinstance(other, ast.Constant) else None)
            op = type(a.ops[0])
            if flipped:
                op = {ast.Lt: ast.Gt, ast.Gt: ast.Lt, ast.LtE: ast.GtE, ast.GtE: ast.LtE}.get(op, op)
            if not tr:
                op = {ast.Eq: ast.NotEq, ast.NotEq: ast.Eq, ast.Lt: ast.GtE, ast.GtE: ast.Lt, ast.Gt: ast.LtE, ast.LtE: ast.Gt}.get(op, op)
            only_sentinel = (op is ast.NotEq and cval == -1) or (op is ast.Gt and cval == -1) or (op is ast.GtE and cval == 0)
            key = f"core/global_semantics.py::adjust_index_of_status_space::guard #{n_g} skips only the sentinel"
            if only_sentinel:
                rep.holds("C08.R8", key, gs.rel, st.lineno, f"relocated when `{norm(a)}` is {tr}")
            elif cval is not None:
                rep.violation("C08.R8", key, gs.rel, st.lineno,
                              f"indexes are relocated only when `{norm(a)}` is {tr}: index 0 (the first entry of a callee's space -- the operand of "
                              f"the first statement of a function without parameters and locals) stays unrelocated and then names entry 0 of the "
                              f"global space, an unrelated state")
            else:
                rep.unknown("C08.R8", key, gs.rel, st.lineno, f"guard `{norm(a)}` not recognised")
    if n_g < 1:
        raise AnalysisError("adjust_index_of_status_space: no guarded relocation found")
    # (c) newest versions
    rs = model.func("core/resolver.py", "Resolver.collect_newest_states_by_state_indexes")
    cfg = cfg_of(rs.node)
    reach = {n.targets[0].id for n in walk_no_nested(rs.node) if isinstance(n, ast.Assign) and isinstance(n.targets[0], ast.Name)
             and isinstance(n.value, ast.BinOp) and isinstance(n.value.op, ast.BitAnd)
             and any(isinstance(x, ast.Attribute) and x.attr == "defined_states" for x in ast.walk(n.value))}
    res = {x.id for r in walk_no_nested(rs.node) if isinstance(r, ast.Return) and r.value is not None for x in ast.walk(r.value) if isinstance(x, ast.Name)}
    key = "core/resolver.py::Resolver.collect_newest_states_by_state_indexes::all reaching versions are collected"
    if not reach:
        rep.unknown("C08.R8", key, "core/resolver.py", rs.node.lineno, "reaching-definition set not recognised")
        return
    from ..model import enclosing_map
    enc = enclosing_map(rs.node)
    bad = None
    n_adds = 0
    for node in cfg.g.nodes:
        for c in cfg.calls_at(node):
            if not (isinstance(c.func, ast.Attribute) and c.func.attr in ("add", "update") and isinstance(c.func.value, ast.Name) and c.func.value.id in res):
                continue
            n_adds += 1
            truthy = any(lab == "T" and any(isinstance(x, ast.Name) and x.id in reach for x in ast.walk(t.test))
                         for t, lab in cfg.controlling_branches(node) if isinstance(t, ast.If))
            if not truthy:
                continue
            cur, in_loop = c, False
            while id(cur) in enc:
                cur = enc[id(cur)]
                if isinstance(cur, ast.For) and isinstance(cur.iter, ast.Name) and cur.iter.id in reach:
                    in_loop = True
            if not in_loop:
                bad = c
    if bad is not None:
        rep.violation("C08.R8", key, "core/resolver.py", bad.lineno,
                      f"`{norm(bad)}` adds a single index on a path where reaching definitions of the state exist, instead of collecting all of "
                      f"them: when the object was written on one branch only and is read through an alias, the version written on that "
                      f"branch is missing from the value set")
    elif n_adds:
        rep.holds("C08.R8", key, "core/resolver.py", rs.node.lineno, "when definitions reach, every one of them is added; the held index is the fallback for none")
    else:
        rep.unknown("C08.R8", key, "core/resolver.py", rs.node.lineno, "no additions to the result recognised")


SS = "core/stmt_states.py"
GSS = "core/global_stmt_states.py"
# early exits from loops that accumulate abstract states which are on the pinned tree and were read; keyed by function and guard
ADJUDICATED_EXITS = {
    ("StmtStates.call_stmt_state", "self.is_state_a_class_decl(each_state) or each_state.data_type == LIAN_INTERNAL.THIS or name_symbol.name == LIAN_INTERNAL.THIS"):
        "delegation, not truncation: a callee name that may be a class hands the whole statement to new_object_stmt_state, which re-reads all name states",
    ("StmtStates.slice_read_stmt_state", "start_value < end_value < array_length and array_state.array[start_value:end_value:step_value]"):
        "an out-of-range combination contributes no element; whether the remaining combinations should still be tried is not decided here",
}
WIDEN_MARKS = ("make_state_tangping(", "make_state_index_tangping", "STATE_TYPE_KIND.ANYTHING", "STATE_TYPE_KIND.UNSOLVED")


def widening_flags(fnode) -> Set[str]:
    """Local boolean flags whose truth leads to a widening: names tested by an `if` whose taken branch makes a state tangping or
    creates an ANYTHING/UNSOLVED state (found by role, not by name)."""
    out: Set[str] = set()
    for n in walk_no_nested(fnode):
        if isinstance(n, ast.If):
            names = {x.id for x in ast.walk(n.test) if isinstance(x, ast.Name)}
            if not names or len(names) > 2:
                continue
            neg = isinstance(n.test, ast.UnaryOp) and isinstance(n.test.op, ast.Not)
            branch = n.orelse if neg else n.body
            txt = " ".join(" ".join(ast.unparse(b).split()) for b in branch)
            # `if not flag: continue` followed by the widening in the rest of the block is the same thing
            if any(m in txt for m in WIDEN_MARKS):
                out |= names
            elif neg and any(isinstance(b, (ast.Continue, ast.Return)) for b in n.body):
                out |= names
    # keep only names that are assigned a boolean constant somewhere in the function
    bools = {t.id for n in walk_no_nested(fnode) if isinstance(n, ast.Assign) and isinstance(n.value, ast.Constant) and isinstance(n.value.value, bool)
             for t in n.targets if isinstance(t, ast.Name)}
    bools |= {t.id for n in walk_no_nested(fnode) if isinstance(n, ast.Assign) and isinstance(n.value, ast.Attribute) and "flag" in n.value.attr
              for t in n.targets if isinstance(t, ast.Name)}
    return out & bools


def is_widened(fnode, guards: List[str], pre: List[ast.stmt], _cache={}) -> bool:
    flags = _cache.get(id(fnode))
    if flags is None:
        flags = _cache[id(fnode)] = widening_flags(fnode)
    import re as _re
    if any(m in g for g in guards for m in WIDEN_MARKS[2:]):
        return True
    if any(_re.search(rf"(?<![\w.]){_re.escape(f)}(?![\w])", g) for g in guards for f in flags):
        return True
    for s_ in pre:
        t = " ".join(ast.unparse(s_).split())
        if any(m in t for m in WIDEN_MARKS):
            return True
        if isinstance(s_, ast.Assign) and isinstance(s_.value, ast.Constant) and s_.value.value is True \
                and any(isinstance(tg, ast.Name) and tg.id in flags for tg in s_.targets):
            return True
    return False


def check_accumulating_loops(model: RepoModel, rep, RID: str):
    from ..model import canon_code
    _ADJ_C = {(fn, canon_code(g)): why for (fn, g), why in ADJUDICATED_EXITS.items()}
    """Shared by C08 (R4) and C09 (R4).  A transfer function computes the abstract value of its result as a union over the
    abstract values of its sources; a loop that accumulates states must therefore either run to completion or, when it stops
    early, widen the result to an explicit unknown.  `break`/`return` inside such a loop without widening keeps the first few
    contributions only."""
    from ..model import enclosing_map
    rep.rule(RID, "state-accumulating loops in the transfer functions are exhaustive: an early exit (break/return) from a loop that adds "
                  "abstract states to a result is preceded or guarded by a widening to unknown (ANYTHING/UNSOLVED state, tangping flag)", 12)
    n_loops = 0
    for rel, cname in ((SS, "StmtStates"), (GSS, "GlobalStmtStates")):
        cls = model.cls(rel, cname)
        for f in cls.methods.values():
            enc = enclosing_map(f.node)

            def accumulates(loop) -> bool:
                # attribute based (stable under renaming of locals): something.states / status.defined_states / *.tangping_elements grows;
                # accumulation into plain locals is the business of the generic rule (R6)
                for x in ast.walk(loop):
                    if isinstance(x, ast.Call) and isinstance(x.func, ast.Attribute) and x.func.attr in ("add", "update") \
                            and isinstance(x.func.value, ast.Attribute) and ("states" in x.func.value.attr or "elements" in x.func.value.attr):
                        return True
                return False
            loops = [n for n in walk_no_nested(f.node) if isinstance(n, ast.For) and accumulates(n)]
            n_loops += len(loops)
            if not loops:
                continue
            loopset = {id(l) for l in loops}
            any_exit = False
            for n in walk_no_nested(f.node):
                if not isinstance(n, (ast.Break, ast.Return)):
                    continue
                cur, inside, nearest = n, False, None
                while id(cur) in enc:
                    cur = enc[id(cur)]
                    if isinstance(cur, (ast.For, ast.While)):
                        if nearest is None:
                            nearest = cur
                        if id(cur) in loopset:
                            inside = True
                if not inside:
                    continue
                any_exit = True
                par = enc[id(n)]
                blk = None
                for fld in ("body", "orelse", "finalbody"):
                    b = getattr(par, fld, None)
                    if isinstance(b, list) and n in b:
                        blk = b
                pre = blk[:blk.index(n)] if blk else []
                # guard: the chain of enclosing `if` tests up to the nearest loop
                guards = []
                cur = n
                while id(cur) in enc and enc[id(cur)] is not nearest:
                    cur = enc[id(cur)]
                    if isinstance(cur, ast.If):
                        t_ = cur.test
                        while isinstance(t_, ast.UnaryOp) and isinstance(t_.op, ast.Not):      # polarity-free: `if c: .. else: break` == `if not c: break`
                            t_ = t_.operand
                        guards.append(" ".join(ast.unparse(t_).split()))
                gtxt = guards[0] if guards else "<unconditional>"
                key = f"{rel}::{cname}.{f.name}::{'break' if isinstance(n, ast.Break) else 'return'} under `{gtxt}`"
                guards_full = []
                cur = n
                while id(cur) in enc and enc[id(cur)] is not nearest:
                    cur = enc[id(cur)]
                    if isinstance(cur, ast.If):
                        guards_full.append(" ".join(ast.unparse(cur.test).split()))
                widened = is_widened(f.node, guards_full, pre)
                if isinstance(n, ast.Return) and n.value is not None and "interruption" in norm(n.value):
                    widened = True      # the statement is re-evaluated after the callee has been analysed
                adj = _ADJ_C.get((f"{cname}.{f.name}", canon_code(gtxt)))
                if widened:
                    rep.holds(RID, key, rel, n.lineno, "early exit guarded/preceded by a widening to unknown")
                elif adj:
                    rep.info(RID, key, rel, n.lineno, "adjudicated: " + adj)
                else:
                    rep.violation(RID, key, rel, n.lineno,
                                  f"{cname}.{f.name} leaves a loop that accumulates abstract states early (`{norm(n)[:50]}` under `{gtxt[:90]}`) "
                                  f"without widening the result to unknown: the sources not yet visited contribute nothing, so a value that "
                                  f"reaches this statement on some path is missing from the computed set")
            if not any_exit:
                rep.holds(RID, f"{rel}::{cname}.{f.name}::{len(loops)} accumulating loop(s) run to completion", rel, loops[0].lineno,
                          "no break/return inside")
    rep.analysed["accumulating loops"] = n_loops


# ---------------------------------------------------------------- self-test mutants
def _t(old, new, count=1):
    return lambda src: __import__("sa.mutate", fromlist=["x"]).text_replace(src, old, new, count)


_CS = "self.is_state_a_class_decl(each_state) or each_state.data_type == LIAN_INTERNAL.THIS or name_symbol.name == LIAN_INTERNAL.THIS"
C08_ADJUDICATED = {
    f"core/stmt_states.py::StmtStates.call_stmt_state::`{a}`::return under `{_CS}`":
        "delegation, not truncation: a callee name that may be a class hands the whole statement to new_object_stmt_state, which re-reads all name states"
    for a in ("unsolved_callee_states", "this_state_set", "callee_method_ids")
}
C08_ADJUDICATED.update({
    "core/stmt_states.py::StmtStates.array_read_stmt_state::`index_values`::break under `not (this_value and len(str(this_value)) > 0 and re.match('^-?\\\\d+$', str(this_value)))`":
        "a non-numeric index empties index_values on purpose: the empty set selects the branch that reads every element of the array (widening)",
    "core/stmt_states.py::StmtStates.array_read_stmt_state::`index_values`::rebound `index_values = set()`":
        "same site: the reset is the widening",
    "core/stmt_states.py::StmtStates.array_write_stmt_state::`index_values`::break under `not (this_value and re.match('^-?\\\\d+$', str(this_value)) and (this_value != ''))`":
        "a non-numeric index empties index_values on purpose: the empty set selects the branch that makes the array tangping (widening)",
    "core/stmt_states.py::StmtStates.array_write_stmt_state::`index_values`::rebound `index_values = set()`":
        "same site: the reset is the widening",
    "core/stmt_states.py::StmtStates.slice_read_stmt_state::`defined_states`::break under `not (start_value < end_value < array_length and array_state.array[start_value:end_value:step_value])`":
        "an out-of-range combination contributes no element; whether the remaining combinations should still be tried is not decided here",
})

MUTANTS = [
    ("folded-zero-dropped", "core/stmt_states.py", _t("        if util.is_available(value):\n            result_state_index", "        if value:\n            result_state_index"), "C08.R10"),
    ("unquote-by-strip", "basics/stmt_def_use_analysis.py", _t("            return value[1:-1]", "            return value.strip(value[0])"), "adjust_constant_string::unquoted by position"),
    ("index-zero-not-relocated", "core/global_semantics.py",
     _t("                if value != -1:\n                    stmt_status.used_symbols[each_id] = value + baseline_index", "                if value > 0:\n                    stmt_status.used_symbols[each_id] = value + baseline_index"),
     "skips only the sentinel"),
    ("newest-version-fast-path", "core/resolver.py",
     _t("                if state_defs:\n                    for each_def in state_defs:", "                if any(each_def.index == state_index for each_def in state_defs):\n                    result.add(state_index)\n                elif state_defs:\n                    for each_def in state_defs:"),
     "all reaching versions are collected"),
    ("state-merge-first-predecessor-only", "core/prelim_semantics.py",
     _t("        for each_parent_stmt_id in parent_stmt_ids:\n            if each_parent_stmt_id in frame.stmt_id_to_status:\n                in_state_bits |= frame.stmt_id_to_status[each_parent_stmt_id].out_state_bits\n",
        "        for each_parent_stmt_id in parent_stmt_ids:\n            if each_parent_stmt_id in frame.stmt_id_to_status:\n                in_state_bits |= frame.stmt_id_to_status[each_parent_stmt_id].out_state_bits\n                break\n"),
     "C08.R6"),
    ("fold-quotes-by-hand", "core/stmt_states.py",
     _t("            tmp_value1 = repr(str(tmp_value1))\n            tmp_value2 = repr(str(tmp_value2))", "            tmp_value1 = f'\"{tmp_value1}\"'\n            tmp_value2 = f'\"{tmp_value2}\"'"),
     "compute_two_states"),
    ("fold-boolean-operands-raw", "core/stmt_states.py",
     _t("            if data_type1 == LIAN_INTERNAL.STRING:\n                tmp_value1 = repr(str(value1))\n", ""),
     "compute_two_states"),
    ("python-folder-made-live", "lang/python_parser.py", _t('if not self.is_constant_literal(node) and node.type != "binary_expression":', 'if not self.is_constant_literal(node) and node.type != "binary_operator":'),
     "python_parser.py::Parser.evaluate_literal_binary_expression"),
    ("number-literal-composed", "lang/go_parser.py", _t("        value = self.common_eval(value)", "        value = self.common_eval(value + \" + 0\")"), "go_parser.py"),
    ("import-names-unescaped", "events/default_event_handlers/basic.py", _t("                old_name = re.escape(old_name)\n", ""), "preprocess_python_import_statements"),
    ("strict-eval-no-scan", "util/util.py", _t('        if "CALL" in insn.opname:\n            error_and_quit(f"Found dangerous content to be evaluated: f{content}")', '        pass'), "strict_eval"),
    ("strict-eval-exec-mode", "util/util.py", _t('compile(content, "", "eval")', 'compile(content, "", "exec")'), "strict_eval"),
    ("state-value-exec", "core/stmt_states.py", _t("        operand_index = status.used_symbols[0]\n        operand_symbol = self.frame.symbol_state_space[operand_index]\n",
                                                   "        operand_index = status.used_symbols[0]\n        operand_symbol = self.frame.symbol_state_space[operand_index]\n        if stmt.operator: eval(str(stmt.operand) + stmt.operator + str(stmt.operand2))\n"),
     "assign_stmt_state"),
    ("param-binding-first-match-only", "core/global_stmt_states.py",
     _t("                    self.add_arg_to_param_edge(each_pair, status, parameter_name_symbol)\n",
        "                    self.add_arg_to_param_edge(each_pair, status, parameter_name_symbol)\n                    break\n"),
     "GlobalStmtStates.parameter_decl_stmt_state::break"),
    ("field-read-first-receiver-only", "core/stmt_states.py",
     _t("                defined_symbol_states.update(receiver_state.tangping_elements)\n", "                defined_symbol_states.update(receiver_state.tangping_elements)\n                break\n"),
     "forin_stmt_state"),
    ("rejection-escapes", "core/stmt_states.py",
     _t('                data_type = LIAN_INTERNAL.STRING\n        except:\n            # value = ""', '                data_type = LIAN_INTERNAL.STRING\n        except Exception:\n            # value = ""'),
     "compute_two_states::strict_eval rejection is contained"),
    ("rejection-escapes-frontend", "lang/common_parser.py",
     _t("            return str(util.strict_eval(input_string))\n        except:", "            return str(util.strict_eval(input_string))\n        except (SyntaxError, ValueError, NameError, TypeError):"),
     "common_eval::strict_eval rejection is contained"),
]
