"""C07 -- every call that can happen at run time is in the computed call graph (DESIGN section 3, C07).

Call-target resolution depends on computed states: not static.  Decided (weak, structural): call-like
operations reach the callee scheduler (R1), what is analysed is recorded as a call path (R2), and a
callee is skipped only for the enumerated reasons (R3, shared with C13.R3).
"""
from __future__ import annotations

import ast
from typing import Dict, List, Optional, Set

import networkx as nx

from .. import gir
from ..cfg import cfg_of
from ..model import AnalysisError, Func, RepoModel, call_name, const_str, dotted, is_self_attr, norm, walk_no_nested

SS = "core/stmt_states.py"
GSS = "core/global_stmt_states.py"
GS = "core/global_semantics.py"
CALL_OPS = ("call_stmt", "object_call_stmt", "new_object")
KNOWN_SKIP_REASONS = {
    "self.path_manager.path_exists(callee_path)": "this call path was already analysed",
    "callee_path.count_cycles() > 1": "second time around a recursion cycle",
    "each_callee_id in self.frame.call_path": "callee is already on the current call path (recursion)",
    "self.frame.content_already_analyzed.get(new_call_site, False)": "analysed in this frame already",
    "self.frame.call_site_analyze_counter.get(new_call_site, 0) > config.MAX_ANALYSIS_ROUND_FOR_CALL_SITE": "per-call-site budget used up",
}


def run(model: RepoModel, rep, tier: str):
    rep.not_decided = ("that the callee id set computed from the states of the callee-name symbol is complete (inheritance, callbacks, "
                       "imports, functions stored as values): call-graph soundness itself is NOT decided by this check")
    rep.rule("C07.R1", "every call-like operation has a state handler from which the callee scheduler is reachable, and the top-down "
                       "phase overrides the scheduler with one that can interrupt with callee ids", 4)
    rep.rule("C07.R2", "analysed => recorded: callee frames originate from the interruption's callee ids, every initialised callee frame "
                       "records its call path built from (caller, call statement, callee), the summary-reuse branch records it too", 4)
    rep.rule("C07.R3", "a resolved callee is skipped only for the enumerated reasons", 1)

    reg = gir.find_registry(model, SS, "StmtStates", "state_analysis_handlers")
    st = model.cls(SS, "StmtStates")
    gss = model.module(GSS).classes.get("GlobalStmtStates")
    if gss is None:
        raise AnalysisError("GlobalStmtStates vanished")
    # intra-class call graph of StmtStates
    g = nx.DiGraph()
    for f in st.methods.values():
        for n in walk_no_nested(f.node):
            if isinstance(n, ast.Call) and is_self_attr(n.func) and n.func.attr in st.methods:
                g.add_edge(f.name, n.func.attr)
    sched = "compute_target_method_states"
    if sched not in st.methods:
        raise AnalysisError("StmtStates.compute_target_method_states vanished")
    for op in CALL_OPS:
        key = f"{SS}::{op}::reaches the callee scheduler"
        h = reg.handlers.get(op)
        if h is None:
            rep.violation("C07.R1", key, SS, 0, f"no state handler is registered for {op}: its callees are never scheduled, so no call edge from such a "
                                                f"statement exists")
            continue
        if h.name in g and sched in g and nx.has_path(g, h.name, sched):
            path = nx.shortest_path(g, h.name, sched)
            rep.holds("C07.R1", key, SS, h.node.lineno, " -> ".join(path))
            continue
        # through an event: the handler raises EVENT_KIND.X and a handler registered for X calls the scheduler
        raised = set()
        reach_h = ({h.name} | nx.descendants(g, h.name)) if h.name in g else {h.name}
        for fn in reach_h:
            for n in walk_no_nested(st.methods[fn].node):
                if isinstance(n, ast.Call) and call_name(n) == "EventData":
                    for a in n.args:
                        d = dotted(a) or ""
                        if d.startswith("EVENT_KIND."):
                            raised.add(d.split(".", 1)[1])
        via = None
        regm = model.module("events/event_registers.py")
        for n in ast.walk(regm.tree):
            if isinstance(n, ast.Call) and call_name(n) == "EventHandler":
                ev = next((k.value for k in n.keywords if k.arg == "event"), None)
                hd = next((k.value for k in n.keywords if k.arg == "handler"), None)
                evn = (dotted(ev) or "").split(".")[-1]
                if evn in raised and isinstance(hd, ast.Attribute) and isinstance(hd.value, ast.Name):
                    mod = model.resolve_module_alias(hd.value.id, regm)
                    hf = mod.functions.get(hd.attr) if mod else None
                    if hf is not None and any(isinstance(x, ast.Call) and isinstance(x.func, ast.Attribute) and x.func.attr == sched for x in walk_no_nested(hf.node)):
                        via = f"{h.name} raises {evn} -> {hf.ref} -> {sched}"
        if via:
            rep.holds("C07.R1", key, SS, h.node.lineno, via)
        else:
            rep.violation("C07.R1", key, SS, h.node.lineno,
                          f"the handler of {op} ({h.name}) no longer reaches {sched}: callees of such statements are never analysed and no call "
                          f"path is recorded for them")
    ov = gss.methods.get(sched)
    key = f"{GSS}::GlobalStmtStates.{sched}::interrupts with the callees to analyse"
    if ov is None:
        rep.violation("C07.R1", key, GSS, gss.node.lineno, f"GlobalStmtStates no longer overrides {sched}: the top-down phase never descends into callees")
    else:
        # by role: a list that the loop over the resolved callees appends callee ids to
        appended_lists = {c.func.value.id for c in walk_no_nested(ov.node) if isinstance(c, ast.Call) and isinstance(c.func, ast.Attribute)
                          and c.func.attr == "append" and isinstance(c.func.value, ast.Name)}
        ok = any(isinstance(n, ast.Call) and (call_name(n) or "").endswith("InterruptionData") and any(
            k.arg == "callee_ids" and isinstance(k.value, ast.Name) and k.value.id in appended_lists for k in n.keywords) for n in walk_no_nested(ov.node)) and \
            any(isinstance(n, ast.keyword) and n.arg == "interruption_flag" and isinstance(n.value, ast.Constant) and n.value.value is True for n in ast.walk(ov.node))
        (rep.holds if ok else rep.violation)("C07.R1", key, GSS, ov.node.lineno,
                                             "returns P2ResultFlag(interruption_flag=True, InterruptionData(callee_ids=callee_ids_to_be_analyzed, ...))" if ok else
                                             f"{sched} no longer hands the callees to be analysed back to the frame driver")

    # ------------------------------------------------------------------ R2
    gsm = model.module(GS)
    p3 = next((c for c in gsm.classes.values() if "analyze_frame_stack" in c.methods), None)
    if p3 is None:
        raise AnalysisError("analyze_frame_stack vanished")
    afs = p3.methods["analyze_frame_stack"]
    key = f"{GS}::analyze_frame_stack::callee frames come from the interruption's callee ids"
    src_ok = any(isinstance(n, ast.For) and isinstance(n.iter, ast.Attribute) and n.iter.attr == "callee_ids" and any(
        isinstance(x, ast.Call) and call_name(x) == "CallSite" for x in ast.walk(n)) for n in walk_no_nested(afs.node))
    frames = [n for n in walk_no_nested(afs.node) if isinstance(n, ast.Call) and (call_name(n) or "").endswith("ComputeFrame")]
    frame_ok = frames and all(any(k.arg == "method_id" and "callee_id" in norm(k.value) for k in c.keywords) and
                              any(k.arg == "call_stmt_id" and "call_stmt_id" in norm(k.value) for k in c.keywords) and
                              any(k.arg == "caller_id" and "caller_id" in norm(k.value) for k in c.keywords) for c in frames)
    pushed = any(isinstance(n, ast.Call) and isinstance(n.func, ast.Attribute) and n.func.attr in ("add", "push") and "frame_stack" in norm(n.func.value)
                 and n.args and (isinstance(n.args[0], ast.Name) or (isinstance(n.args[0], ast.Call) and (call_name(n.args[0]) or "").endswith("ComputeFrame")))
                 for n in walk_no_nested(afs.node))
    # what the caller's frame keeps FOR the callee (`callee_<x>`, filled from the interruption) is what the callee's frame is built
    # from; passing the caller's own `<x>` hands the callee the caller's receiver classes
    cf_cls = model.module("common_structs.py").classes.get("ComputeFrame")
    cf_attrs = {t.attr for a in walk_no_nested(cf_cls.methods["__init__"].node) if isinstance(a, ast.Assign) for t in a.targets if is_self_attr(t)} if cf_cls else set()
    for c in frames:
        for k in c.keywords:
            if k.arg and isinstance(k.value, ast.Attribute) and isinstance(k.value.value, ast.Name) and f"callee_{k.arg}" in cf_attrs:
                key2 = f"{GS}::analyze_frame_stack::callee frame `{k.arg}` comes from the caller frame's `callee_{k.arg}`"
                if k.value.attr == f"callee_{k.arg}":
                    rep.holds("C07.R2", key2, GS, k.value.lineno, f"`{k.arg} = {norm(k.value)}`")
                else:
                    rep.violation("C07.R2", key2, GS, k.value.lineno,
                                  f"the callee's frame is created with `{k.arg} = {norm(k.value)}`, the CALLER's own value; what the call site determined for "
                                  f"the callee is kept in `{norm(k.value.value)}.callee_{k.arg}`: an inherited method analysed for a subclass instance no "
                                  f"longer knows the run-time class of `self`, so calls through `self` to methods the subclass overrides or adds get no edge")
    if src_ok and frame_ok and pushed:
        rep.holds("C07.R2", key, GS, afs.node.lineno, "CallSite(data.caller_id, data.call_stmt_id, callee_id) per callee id; ComputeFrame(method_id=key.callee_id, ...) pushed")
    else:
        rep.violation("C07.R2", key, GS, afs.node.lineno,
                      "analyze_frame_stack: " + ("the pending call sites are not built from the interruption's callee ids; " if not src_ok else "")
                      + ("the callee frame is not created for (caller, call statement, callee); " if not frame_ok else "")
                      + ("the callee frame is not pushed" if not pushed else ""))
    icf = p3.methods.get("init_compute_frame")
    if icf is None:
        raise AnalysisError("P3 init_compute_frame vanished")
    cfg = cfg_of(icf.node)
    add_nodes = {n for n in cfg.g.nodes for c in cfg.calls_at(n) if isinstance(c.func, ast.Attribute) and c.func.attr == "add_path" and "path_manager" in norm(c.func.value)}
    key = f"{GS}::init_compute_frame::an initialised callee frame records its call path"
    build = [n for n in walk_no_nested(icf.node) if isinstance(n, ast.Assign) and "call_path" in norm(n.targets[0]) and isinstance(n.value, ast.Call)
             and isinstance(n.value.func, ast.Attribute) and n.value.func.attr in ("add_call", "add_callsite")]
    FR = icf.params[1]
    last_vars = {n.targets[0].id for n in walk_no_nested(icf.node) if isinstance(n, ast.Assign) and isinstance(n.targets[0], ast.Name)
                 and isinstance(n.value, ast.Subscript) and isinstance(n.value.slice, ast.UnaryOp) and isinstance(n.value.slice.operand, ast.Constant)
                 and n.value.slice.operand.value == 2}

    def _attr_on(e, bases, attr):
        return isinstance(e, ast.Attribute) and e.attr == attr and isinstance(e.value, ast.Name) and e.value.id in bases
    args_ok = bool(build) and len(build[0].value.args) == 3 and _attr_on(build[0].value.args[0], last_vars, "method_id") \
        and _attr_on(build[0].value.args[1], {FR}, "call_stmt_id") and _attr_on(build[0].value.args[2], {FR}, "method_id")
    # every path that returns the frame and passed the `has a caller` test passed add_path
    ret_frame = [n for n in cfg.g.nodes if cfg.kind[n] == "stmt" and isinstance(cfg.stmt[n], ast.Return) and isinstance(cfg.stmt[n].value, ast.Name)
                 and cfg.stmt[n].value.id == icf.params[1]]
    caller_tests = [(t, lab) for (t, lab), b in cfg.branch_of.items() if isinstance(cfg.stmt[t], ast.If) and "len(frame_stack)" in norm(cfg.stmt[t].test)]
    ok_paths = True
    for t, lab in caller_tests:
        if lab != "T":
            continue
        b = cfg.branch_of[(t, "T")]
        for r in ret_frame:
            if cfg.path_avoiding(b, r, add_nodes) is not None:
                ok_paths = False
    if add_nodes and args_ok and ok_paths and caller_tests:
        rep.holds("C07.R2", key, GS, icf.node.lineno, "frame.call_path = caller path + (caller, call stmt, callee); path_manager.add_path(frame.call_path) on every returning path with a caller")
    else:
        rep.violation("C07.R2", key, GS, icf.node.lineno,
                      "init_compute_frame: " + ("no path_manager.add_path; " if not add_nodes else "")
                      + ("the call path is not extended with (last_frame.method_id, frame.call_stmt_id, frame.method_id); " if not args_ok else "")
                      + ("a callee frame can be returned for analysis without its call path being recorded" if not ok_paths else "")
                      + ": a callee is analysed but its call edge is missing from call_paths_p3")
    # summary reuse branch
    key = f"{GSS}::{sched}::the summary-reuse branch records the call path too"
    if ov is not None:
        reuse_loops = [n for n in walk_no_nested(ov.node) if isinstance(n, ast.For) and any(
            isinstance(x, ast.Call) and isinstance(x.func, ast.Attribute) and x.func.attr == "get_method_summary_instance" for x in ast.walk(n))]
        ok = reuse_loops and any(isinstance(x, ast.Call) and isinstance(x.func, ast.Attribute) and x.func.attr == "add_path" for x in ast.walk(reuse_loops[0]))
        (rep.holds if ok else rep.violation)("C07.R2", key, GSS, ov.node.lineno,
                                             "path_manager.add_path(call_path + new_call_site) next to get_method_summary_instance" if ok else
                                             "when a callee's summary is reused instead of re-analysing it, no call path is recorded for that call")
        # p3 also saves the paths
    runf = p3.methods.get("run")
    key = f"{GS}::run::call paths are saved"
    ok = runf is not None and any(isinstance(n, ast.Call) and isinstance(n.func, ast.Attribute) and n.func.attr == "save_call_paths_p3" and n.args
                                  and "path_manager.paths" in norm(n.args[0]) for n in walk_no_nested(runf.node))
    (rep.holds if ok else rep.violation)("C07.R2", key, GS, runf.node.lineno if runf else 0,
                                         "loader.save_call_paths_p3(self.path_manager.paths)" if ok else "the recorded call paths are never saved")

    # ------------------------------------------------------------------ R3
    if ov is not None:
        cut = None
        for n in walk_no_nested(ov.node):
            if isinstance(n, ast.If) and isinstance(n.test, ast.BoolOp) and isinstance(n.test.op, ast.Or) and any(isinstance(b, ast.Continue) for b in n.body) \
                    and any("path_manager" in norm(v) or "call_site_analyze_counter" in norm(v) for v in n.test.values):
                cut = n
        key = f"{GSS}::{sched}::skip reasons"
        if cut is None:
            rep.unknown("C07.R3", key, GSS, ov.node.lineno, "skip test not recognised")
        else:
            from ..model import canon_code
            disj = [" ".join(ast.unparse(v).split()) for v in cut.test.values]
            known_c = {canon_code(k): v for k, v in KNOWN_SKIP_REASONS.items()}
            new = [d for d in disj if canon_code(d) not in known_c]
            if new:
                rep.unknown("C07.R3", key, GSS, cut.lineno, f"unrecognised skip reason(s) {new}: not classified")
            else:
                rep.holds("C07.R3", key, GSS, cut.lineno, f"{len(disj)} disjunct(s), all enumerated: " + "; ".join(known_c[canon_code(d)] for d in disj))
        # skipping must be per callee (continue), never abandon the remaining callees
        key = f"{GSS}::{sched}::a skipped callee does not end the loop over callees"
        loops = [n for n in walk_no_nested(ov.node) if isinstance(n, ast.For) and isinstance(n.iter, ast.Name) and n.iter.id in ov.params
                 and "callee" in n.iter.id]
        early = [x for l in loops for x in ast.walk(l) if isinstance(x, (ast.Break, ast.Return))]
        if loops and not early:
            rep.holds("C07.R3", key, GSS, loops[0].lineno, "no break/return inside the loops over the resolved callees")
        elif loops:
            rep.violation("C07.R3", key, GSS, early[0].lineno,
                          f"`{norm(early[0])}` inside the loop over the resolved callees: after the first such callee the remaining targets of the call "
                          f"site are never analysed nor recorded")


    _r4_keyword_order(model, rep)
    _r5_per_callee_accumulation(model, rep, st, gss)
    from .c10 import check_summary_accumulates
    check_summary_accumulates(model, rep, "C07.R6", declare=True)
    _r7_inherited_methods(model, rep)
    _r8_call_site_budget(model, rep, "C07.R8")
    # `import helper; helper.f(x)`: the receiver of the call is a MODULE.  The handler of field reads looks the field up among the module's
    # symbols (branch `is_state_a_unit(receiver)`); the handler of method-call statements resolves `<receiver>.<field>` too and must do the same,
    # otherwise a function called through its module is no callee at all
    from .. import generic4
    rep.rule("C07.R11", "a relative import is searched in the right package: n leading dots climb n-1 packages above the importing file's own package (dot counter, guarded level assignment and the range of the climbing loop evaluated for 1..5 dots)", 1)
    generic4.check_relative_import_levels(model, rep, "C07.R11")
    rep.rule("C07.R10", "a call through a module (`import m; m.f()`) is resolved like a read of `m.f`: every handler that resolves `<receiver>.<field>` "
                        "looks the field up among a module receiver's symbols", 2)
    resolvers = [h for h in (st.methods.get("field_read_stmt_state"), st.methods.get("object_call_state")) if h is not None]
    if len(resolvers) < 2:
        raise AnalysisError("StmtStates.field_read_stmt_state / object_call_state vanished")
    for h in resolvers:
        key = f"{SS}::StmtStates.{h.name}::a module receiver's field is looked up among the module's symbols"
        if any(isinstance(c, ast.Call) and is_self_attr(c.func, "is_state_a_unit") for c in walk_no_nested(h.node)):
            rep.holds("C07.R10", key, SS, h.node.lineno, "branch `self.is_state_a_unit(<receiver state>)` present")
        else:
            rep.violation("C07.R10", key, SS, h.node.lineno,
                          f"{h.name} resolves `<receiver>.<field>` through the receiver state's field map only; for a receiver that is an imported module "
                          f"(no field map) nothing is found, while field_read_stmt_state looks the name up among the module's symbols: `import helper; "
                          f"helper.f(1)` has no call edge to helper.f")
    # calls through imports from other analysed files: the import resolution rules of C05.R7 are necessary conditions here too
    from .c05 import _r7 as _imports
    _imports(model, rep, "C07.R9")


TH = "basics/type_hierarchy.py"


def check_base_order(model: RepoModel, rep, RID: str):
    """the bases of a class are visited in the order the class statement lists them (the order the edges were added to the type graph):
    re-ordering them (sorted by id = by position of the class definitions in the file, or through a set) makes the method that wins
    among several bases depend on where unrelated classes are defined"""
    th = model.module(TH).classes.get("TypeHierarchy")
    if th is None:
        raise AnalysisError("TypeHierarchy vanished")
    n = 0
    for f in th.methods.values():
        for L in walk_no_nested(f.node):
            if not isinstance(L, ast.For):
                continue
            src = L.iter
            if isinstance(src, ast.Name):
                ds = [a.value for a in walk_no_nested(f.node) if isinstance(a, ast.Assign) and isinstance(a.targets[0], ast.Name) and a.targets[0].id == src.id]
                src = ds[0] if len(ds) == 1 else src
            if "graph_successors" not in norm(src) and "successors" not in norm(src):
                continue
            n += 1
            key = f"{TH}::{f.qualname}::bases are visited in class-statement order"
            reorder = next((x for x in ast.walk(src) if isinstance(x, ast.Call) and (call_name(x) or "") in ("sorted", "set", "frozenset", "reversed")), None)
            if reorder is not None:
                rep.violation(RID, key, TH, L.lineno,
                              f"{f.qualname} walks the bases as `{norm(src)[:80]}`: `{call_name(reorder)}` replaces the order of the class statement by the order of "
                              f"the class ids, i.e. by where the base classes are defined in the file -- swapping two unrelated top-level class "
                              f"definitions changes which base's method (constructor) a call resolves to")
            else:
                rep.holds(RID, key, TH, L.lineno, f"`{norm(src)[:80]}` (edge insertion order)")
    if not n:
        raise AnalysisError("TypeHierarchy no longer walks graph successors to merge the bases' methods")


def _r7_inherited_methods(model: RepoModel, rep):
    """Calls of inherited methods are resolved through the per-class method table, which TypeHierarchy builds as own methods + the
    tables of the parents.  Decided: the parents' tables are complete when they are read, every parent contributes, every class gets
    a table."""
    rep.rule("C07.R7", "inherited methods are callable: a class's method table is its own methods plus its parents' COMPLETE tables (a parent "
                       "is built before its table is read), every parent contributes, and every class declaration of the type graph gets a table", 4)
    check_base_order(model, rep, "C07.R7")
    from ..generic import check_accumulators
    from ..generic2 import check_ensure_before_get
    th = model.module(TH).classes.get("TypeHierarchy")
    if th is None:
        raise AnalysisError("TypeHierarchy vanished")
    if check_ensure_before_get(model, rep, "C07.R7", [TH]) < 1:
        raise AnalysisError("TypeHierarchy no longer has a builder of the shape F(x): F(parent); get(parent); save(x)")
    check_accumulators(model, rep, "C07.R7", [TH], {}, "the methods of the parents not yet visited are missing from the class's table, so a call of "
                       "such an inherited method has no callee", 0, declare=False)
    # every class declaration is visited by the driver
    run_f = th.methods.get("run")
    adj = [f for f in th.methods.values() if any(isinstance(c, ast.Call) and isinstance(c.func, ast.Attribute) and c.func.attr == "save_methods_in_class"
                                                 for c in walk_no_nested(f.node))]
    if run_f is None or not adj:
        raise AnalysisError("TypeHierarchy.run / the method that saves methods_in_class vanished")
    key = f"{TH}::TypeHierarchy.run::every class declaration of the type graph gets its method table"
    loops = [L for L in walk_no_nested(run_f.node) if isinstance(L, ast.For) and any(
        isinstance(c, ast.Call) and is_self_attr(c.func, adj[0].name) for c in ast.walk(L))]
    early = [x for L in loops for x in ast.walk(L) if isinstance(x, (ast.Break, ast.Return))]
    over_graph = [L for L in loops if "graph" in norm(L.iter)]
    if over_graph and not early:
        rep.holds("C07.R7", key, TH, over_graph[0].lineno, f"loop over `{norm(over_graph[0].iter)}` calls {adj[0].name} for class declarations, no early exit")
    else:
        rep.violation("C07.R7", key, TH, run_f.node.lineno,
                      f"TypeHierarchy.run no longer calls {adj[0].name} for every node of the type graph (or leaves the loop early): classes "
                      f"without a saved method table resolve no method call, inherited or not")
    # the memo guard of the builder marks the class BEFORE recursing (cyclic inheritance terminates) and saves on every path after it
    a = adj[0]
    cfg = cfg_of(a.node)
    saves = {n for n in cfg.g.nodes for c in cfg.calls_at(n) if isinstance(c.func, ast.Attribute) and c.func.attr == "save_methods_in_class"}
    marks = [n for n in cfg.g.nodes for c in cfg.calls_at(n) if isinstance(c.func, ast.Attribute) and c.func.attr == "add" and is_self_attr(c.func.value)]
    key = f"{TH}::{a.qualname}::a class marked as analysed has its table saved"
    if marks and all(cfg.path_avoiding(m, cfg.EXIT, saves) is None for m in marks):
        rep.holds("C07.R7", key, TH, a.node.lineno, "every path from the memo mark to the exit passes save_methods_in_class")
    else:
        rep.violation("C07.R7", key, TH, a.node.lineno,
                      f"{a.qualname} can return after marking the class as analysed without saving its method table: the class is never "
                      f"revisited, so its methods (own and inherited) stay unknown to call resolution")


def _r8_call_site_budget(model: RepoModel, rep, RID: str):
    """arithmetic of the per-call-site analysis budget, from the code's own constant and increment sites"""
    from .c09 import check_call_site_budget
    check_call_site_budget(model, rep, RID, declare=True)


DU = "basics/stmt_def_use_analysis.py"


def _r4_keyword_order(model: RepoModel, rep, RID: str = "C07.R4"):
    """Keyword arguments travel as a positional tail of used_symbols; producer and consumers pair them with the key names by
    enumerating the keys of literal_eval(stmt.named_args) independently.  All enumerations must use the same order."""
    rep.rule(RID, "argument binding: every site that pairs the keyword-argument tail of used_symbols with key names enumerates the "
                       "keys of stmt.named_args in the same order (the producer in the def-use pass, the call-format writer, prepare_args)", 3)
    sites = []      # (rel, func, line, klass, text)
    for rel in (DU, SS, GSS):
        m = model.module(rel)
        for f in m.all_funcs():
            dvars: Set[str] = set()
            for n in walk_no_nested(f.node):
                if isinstance(n, ast.Assign) and isinstance(n.targets[0], ast.Name) and isinstance(n.value, ast.Call) \
                        and call_name(n.value) == "ast.literal_eval" and n.value.args and isinstance(n.value.args[0], ast.Attribute) \
                        and n.value.args[0].attr == "named_args":
                    dvars.add(n.targets[0].id)

            def is_d(e) -> bool:
                if isinstance(e, ast.Name) and e.id in dvars:
                    return True
                return isinstance(e, ast.Call) and call_name(e) == "ast.literal_eval" and e.args and isinstance(e.args[0], ast.Attribute) \
                    and e.args[0].attr == "named_args"

            def keys_of(e) -> bool:
                """e enumerates the keys/items/values of the dict in its own order"""
                if is_d(e):
                    return True
                if isinstance(e, ast.Call) and isinstance(e.func, ast.Attribute) and e.func.attr in ("keys", "items", "values") and is_d(e.func.value):
                    return True
                if isinstance(e, ast.Call) and isinstance(e.func, ast.Name) and e.func.id in ("list", "tuple", "enumerate", "iter") and e.args:
                    return keys_of(e.args[0])
                return False
            seen: Set[int] = set()
            for n in walk_no_nested(f.node):
                if isinstance(n, ast.Call) and isinstance(n.func, ast.Name) and n.func.id == "sorted" and n.args and keys_of(n.args[0]):
                    rev = any(k.arg == "reverse" and not (isinstance(k.value, ast.Constant) and k.value.value is False) for k in n.keywords)
                    keyf = any(k.arg == "key" for k in n.keywords)
                    sites.append((rel, f, n.lineno, "sorted" + ("-reverse" if rev else "") + ("-by-key" if keyf else ""), norm(n)))
                    for x in ast.walk(n.args[0]):
                        seen.add(id(x))
            for n in walk_no_nested(f.node):
                it = None
                if isinstance(n, (ast.For, ast.comprehension)):
                    it = n.iter
                if isinstance(n, ast.Assign) and not is_d(n.value) and keys_of(n.value):
                    it = n.value
                if it is not None and id(it) not in seen and keys_of(it):
                    sites.append((rel, f, it.lineno, "source-order", norm(it)))
    if len(sites) < 3:
        raise AnalysisError(f"only {len(sites)} enumeration(s) of stmt.named_args keys found (producer, call-format writer and prepare_args expected)")
    classes = {}
    for s_ in sites:
        classes.setdefault(s_[3], []).append(s_)
    major = max(classes, key=lambda k: len(classes[k]))
    for rel, f, ln, kl, txt in sites:
        key = f"{rel}::{f.qualname}::keyword keys enumerated as `{txt}`"
        if len(classes) == 1:
            rep.holds(RID, key, rel, ln, f"order class `{kl}`, same at all {len(sites)} sites")
        elif kl != major or len(classes[major]) * 2 <= len(sites):
            others = "; ".join(f"{r}:{l} `{t}` ({k})" for r, _f, l, k, t in sites if (r, l) != (rel, ln))
            rep.violation(RID, key, rel, ln,
                          f"this site enumerates the keyword arguments in `{kl}` order while the cooperating sites use another order ({others}): "
                          f"with two or more keywords not written in that order, values are paired with the wrong parameter names -- a callback "
                          f"passed by keyword is bound to the wrong parameter and its call edge is missing")
        else:
            rep.holds(RID, key, rel, ln, f"order class `{kl}` (the majority order)")


def _r5_per_callee_accumulation(model: RepoModel, rep, st, gss):
    """Inside the loop over the resolved callees nothing that is used after the loop may be rebound per iteration."""
    rep.rule("C07.R5", "per-callee results accumulate: a local assigned inside the loop over the resolved callees of a call site is not read "
                       "after the loop (only appended/extended collections initialised before the loop are), so every callee contributes", 2)
    for cls, rel in ((st, SS), (gss, GSS)):
        f = cls.methods.get("compute_target_method_states")
        if f is None:
            continue
        cfg = cfg_of(f.node)
        loops = [n for n in walk_no_nested(f.node) if isinstance(n, ast.For) and isinstance(n.iter, ast.Name) and n.iter.id in f.params
                 and "callee" in n.iter.id]
        if not loops:
            raise AnalysisError(f"{f.ref}: loop over the resolved callee ids not found")
        for li, loop in enumerate(loops):
            inside = {id(x) for x in ast.walk(loop)}
            assigned: Dict[str, List[ast.stmt]] = {}
            for x in ast.walk(loop):
                if isinstance(x, (ast.Assign, ast.AugAssign, ast.AnnAssign)):
                    tg = x.targets if isinstance(x, ast.Assign) else [x.target]
                    for t in tg:
                        if isinstance(t, ast.Name):
                            assigned.setdefault(t.id, []).append(x)
            all_defs: Dict[str, List[ast.stmt]] = {}
            for x in walk_no_nested(f.node):
                if isinstance(x, (ast.Assign, ast.AugAssign, ast.AnnAssign)):
                    tg = x.targets if isinstance(x, ast.Assign) else [x.target]
                    for t in tg:
                        if isinstance(t, ast.Name):
                            all_defs.setdefault(t.id, []).append(x)
                if isinstance(x, ast.For) and isinstance(x.target, ast.Name):
                    all_defs.setdefault(x.target.id, []).append(x)
            bad = []
            stmts_after = [x for x in walk_no_nested(f.node) if isinstance(x, ast.stmt) and id(x) not in inside
                           and x.lineno > (loop.end_lineno or loop.lineno)]
            for name, defs in sorted(assigned.items()):
                for use_st in stmts_after:
                    try:
                        un = cfg.node(use_st)
                    except Exception:
                        continue
                    exprs = cfg.exprs_at(un)
                    if not any(isinstance(y, ast.Name) and y.id == name and isinstance(y.ctx, ast.Load) for e in exprs for y in ast.walk(e)):
                        continue
                    for d in defs:
                        try:
                            dn = cfg.node(d)
                        except Exception:
                            continue
                        avoid = set()
                        for od in all_defs.get(name, []):
                            if od is d:
                                continue
                            try:
                                avoid.add(cfg.node(od))
                            except Exception:
                                pass
                        if cfg.path_avoiding(dn, un, avoid) is not None:
                            bad.append((name, d, use_st))
                            break
                    else:
                        continue
                    break
            key = f"{rel}::{cls.name}.compute_target_method_states::callee loop #{li + 1}: nothing rebound per callee is used after the loop"
            if bad:
                name, d, use_st = bad[0]
                rep.violation("C07.R5", key, rel, d.lineno,
                              f"`{norm(d)[:80]}` rebinds `{name}` on every iteration of the loop over the resolved callees, and `{name}` is read "
                              f"after the loop (line {use_st.lineno}: `{norm(use_st)[:70]}`): only the last callee's value survives -- at a call site "
                              f"with several possible callees the others lose their argument/parameter binding or are not scheduled")
            else:
                rep.holds("C07.R5", key, rel, loop.lineno,
                          f"{len(assigned)} local(s) assigned per iteration ({', '.join(sorted(assigned))[:120]}); none reaches a read after the loop")


# ---------------------------------------------------------------- self-test mutants
def _t(old, new, count=1):
    return lambda src: __import__("sa.mutate", fromlist=["x"]).text_replace(src, old, new, count)


MUTANTS = [
    ("new-object-unregistered", SS, _t('"new_object"', '"new_instance"'), "new_object::reaches"),
    ("constructor-handler-unregistered", "events/event_registers.py",
     _t("                event = EVENT_KIND.P2STATE_NEW_OBJECT_AFTER,\n                handler = init_new_file_and_object.apply_constructor_summary,",
        "                event = EVENT_KIND.P2STATE_NEW_OBJECT_BEFORE,\n                handler = init_new_file_and_object.init_new_object,"), "new_object::reaches"),
    ("call-path-not-recorded", GS, _t("            self.path_manager.add_path(frame.call_path)\n", ""), "records its call path"),
    ("call-path-wrong-site", GS, _t("                last_frame.method_id, frame.call_stmt_id, frame.method_id\n", "                last_frame.method_id, last_frame.call_stmt_id, frame.method_id\n"), "records its call path"),
    ("reuse-branch-no-path", GSS, _t("                self.path_manager.add_path(new_path)\n", "                pass\n"), "summary-reuse branch"),
    ("first-skip-ends-loop", GSS, _t("                self.frame.call_site_analyze_counter.get(new_call_site, 0) > config.MAX_ANALYSIS_ROUND_FOR_CALL_SITE\n            ):\n                continue",
                                     "                self.frame.call_site_analyze_counter.get(new_call_site, 0) > config.MAX_ANALYSIS_ROUND_FOR_CALL_SITE\n            ):\n                break"),
     "does not end the loop"),
    ("paths-not-saved", GS, _t("        self.loader.save_call_paths_p3(self.path_manager.paths)\n", "        pass\n"), "call paths are saved"),
    ("callee-frame-for-caller", GS, _t("                            method_id = key.callee_id,\n", "                            method_id = key.caller_id,\n"), "callee frames come from"),
    ("keyword-order-producer", DU, _t("            for key in sorted(args_dict.keys()):\n                args_list.append(args_dict[key])",
                                      "            for key in args_dict:\n                args_list.append(args_dict[key])"), "keyword keys enumerated as `args_dict`"),
    ("keyword-order-consumer", SS, _t("            keys = sorted(args_dict.keys())\n            keys_len = len(keys)", "            keys = list(args_dict.keys())\n            keys_len = len(keys)"),
     "C07.R4"),
    ("mapping-rebound-per-callee", GSS, _t("            current_parameter_mapping_list = []\n            self.map_arguments(args, parameters, current_parameter_mapping_list, new_call_site)\n            parameter_mapping_list.extend(current_parameter_mapping_list)",
                                           "            parameter_mapping_list = []\n            self.map_arguments(args, parameters, parameter_mapping_list, new_call_site)"),
     "nothing rebound per callee is used after the loop"),
    ("callee-list-rebound", SS, _t("                callee_ids_to_be_analyzed.append(each_callee_id)\n            # prepare callee parameters\n            parameters = self.prepare_parameters(each_callee_id)\n            if config.DEBUG_FLAG:\n                util.debug(f\"parameters of callee <{each_callee_id}>: {parameters}\")\n            new_call_site",
                                   "                callee_ids_to_be_analyzed = [each_callee_id]\n            # prepare callee parameters\n            parameters = self.prepare_parameters(each_callee_id)\n            if config.DEBUG_FLAG:\n                util.debug(f\"parameters of callee <{each_callee_id}>: {parameters}\")\n            new_call_site"),
     "nothing rebound per callee is used after the loop"),
    ("no-interruption", GSS, _t("                interruption_flag = True,\n", "                interruption_flag = False,\n"), "interrupts with the callees"),
]
