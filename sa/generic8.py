"""T1  check_for_continue_runs_update   basics/control_flow.py::analyze_for_stmt: in a C-style `for` a `continue` of the body runs the
                                       update part before the condition is tested again.  The continue statements the body put on its
                                       special list must join the frontier that is handed to the analysis of the update block."""
from __future__ import annotations

import ast

from .model import AnalysisError, RepoModel, call_name, const_str, norm, walk_no_nested


def check_for_continue_runs_update(model: RepoModel, rep, RID: str):
    m = model.module("basics/control_flow.py")
    fs = [f for f in m.all_funcs() if f.name == "analyze_for_stmt"]
    if not fs:
        raise AnalysisError("control_flow: analyze_for_stmt vanished")
    f = fs[0]
    calls = [c for c in walk_no_nested(f.node) if isinstance(c, ast.Call) and (call_name(c) or "").endswith("analyze_block") and len(c.args) >= 3]
    # the block variables: which local holds the update block / the loop body (assigned from read_block(<x>.update_body | <x>.body) directly or via an id variable)
    def block_kind(e, depth=0):
        if isinstance(e, ast.Call) and (call_name(e) or "").endswith("read_block") and e.args:
            return block_kind(e.args[0], depth + 1)
        if isinstance(e, ast.Attribute) and e.attr in ("update_body", "body", "init_body", "condition_prebody"):
            return e.attr
        if isinstance(e, ast.Name) and depth < 4:
            for s in walk_no_nested(f.node):
                if isinstance(s, ast.Assign) and any(isinstance(t, ast.Name) and t.id == e.id for t in s.targets):
                    k = block_kind(s.value, depth + 1)
                    if k:
                        return k
        return None
    body_calls = [c for c in calls if block_kind(c.args[0]) == "body"]
    upd_calls = [c for c in calls if block_kind(c.args[0]) == "update_body"]
    if not body_calls or not upd_calls:
        raise AnalysisError("analyze_for_stmt: analysis of the body / of the update block not recognised")
    special = body_calls[0].args[2]
    upd = upd_calls[0]
    key = f"{f.ref}::a continue of the body enters the update block"
    if not isinstance(special, ast.Name) or not isinstance(upd.args[1], ast.Name):
        rep.unknown(RID, key, m.rel, upd.lineno, "special list or update frontier is not a plain variable")
        return
    S, F = special.id, upd.args[1].id
    # variables holding the continue statements taken from S
    cont_vars = set()
    for s in walk_no_nested(f.node):
        if isinstance(s, ast.Assign) and len(s.targets) == 1 and isinstance(s.targets[0], ast.Name) and s.lineno > body_calls[0].lineno and s.lineno < upd.lineno:
            if any(isinstance(x, ast.Name) and x.id == S for x in ast.walk(s.value)) and any(const_str(c) == "continue_stmt" for c in ast.walk(s.value)) \
                    and any(isinstance(c, ast.Compare) and isinstance(c.ops[0], ast.Eq) for c in ast.walk(s.value)):
                cont_vars.add(s.targets[0].id)
    joined = False
    for s in walk_no_nested(f.node):
        if not isinstance(s, ast.stmt) or s.lineno <= body_calls[0].lineno or s.lineno >= upd.lineno:
            continue
        tgt_is_F = (isinstance(s, ast.Assign) and any(isinstance(t, ast.Name) and t.id == F for t in s.targets)) or \
                   (isinstance(s, ast.AugAssign) and isinstance(s.target, ast.Name) and s.target.id == F)
        if tgt_is_F and any(isinstance(x, ast.Name) and x.id in cont_vars for x in ast.walk(s.value)):
            joined = True
        if isinstance(s, ast.Expr) and isinstance(s.value, ast.Call) and isinstance(s.value.func, ast.Attribute) and s.value.func.attr in ("extend", "append") \
                and isinstance(s.value.func.value, ast.Name) and s.value.func.value.id == F and any(isinstance(x, ast.Name) and x.id in cont_vars for a in s.value.args for x in ast.walk(a)):
            joined = True
    if joined:
        rep.holds(RID, key, m.rel, upd.lineno, f"the continue statements of `{S}` join `{F}` before `{norm(upd)[:70]}`")
    else:
        rep.violation(RID, key, m.rel, upd.lineno,
                      f"the update block is entered from the ends of the body only (`{norm(upd)[:70]}`); the body's continue statements stay on `{S}` and "
                      f"are linked straight to the for statement: for `for (i = 0; i < n; i++) {{ if (c) continue; ... }}` the executed step "
                      f"continue -> i++ is no CFG edge")
    rep.analysed["C-style for handlers"] = 1


def check_switch_forwards_continue(model: RepoModel, rep, RID: str):
    """basics/control_flow.py::analyze_switch_stmt: a `break` inside a case leaves the switch, a `continue` belongs to the enclosing loop.
    The special list the case bodies fill must not join the switch's own frontier as a whole: only its break statements do, the rest is
    handed to the caller's special list."""
    m = model.module("basics/control_flow.py")
    fs = [f for f in m.all_funcs() if f.name == "analyze_switch_stmt"]
    if not fs:
        raise AnalysisError("control_flow: analyze_switch_stmt vanished")
    f = fs[0]
    params = [a.arg for a in f.node.args.args]
    outer = params[4] if len(params) > 4 else "global_special_stmts"
    calls = [c for c in walk_no_nested(f.node) if isinstance(c, ast.Call) and (call_name(c) or "").endswith("analyze_block") and len(c.args) >= 3
             and isinstance(c.args[2], ast.Name)]
    if not calls:
        raise AnalysisError("analyze_switch_stmt: analysis of the case bodies not recognised")
    S = calls[0].args[2].id
    key = f"{f.ref}::only the breaks of the case bodies leave through the switch"
    if S == outer:
        rep.holds(RID, key, m.rel, calls[0].lineno, "the case bodies fill the caller's special list directly; the switch adds nothing to its frontier")
        return
    rets = [r for r in walk_no_nested(f.node) if isinstance(r, ast.Return) and r.value is not None]
    whole = []
    for r in rets:
        front = r.value.elts[0] if isinstance(r.value, ast.Tuple) and r.value.elts else r.value
        exprs = [front]
        for n in {x.id for x in ast.walk(front) if isinstance(x, ast.Name)}:
            exprs += [s.value for s in walk_no_nested(f.node) if isinstance(s, ast.Assign) and any(isinstance(t, ast.Name) and t.id == n for t in s.targets)]
        for e in exprs:
            filtered = {id(x) for c in ast.walk(e) if isinstance(c, (ast.ListComp, ast.GeneratorExp)) and any(const_str(k) == "break_stmt" for k in ast.walk(c)) for x in ast.walk(c)}
            for x in ast.walk(e):
                if isinstance(x, ast.Name) and x.id == S and id(x) not in filtered:
                    whole.append(x)
    forwarded = any(isinstance(c, ast.Call) and isinstance(c.func, ast.Attribute) and c.func.attr in ("extend", "append") and isinstance(c.func.value, ast.Name)
                    and c.func.value.id == outer and any(isinstance(x, ast.Name) and x.id == S for a in c.args for x in ast.walk(a)) for c in walk_no_nested(f.node))
    if whole:
        rep.violation(RID, key, m.rel, whole[0].lineno,
                      f"the whole special list `{S}` joins the frontier behind the switch: a `continue` inside a case (of a switch inside a loop) is linked "
                      f"to the statement after the switch instead of the loop, the executed step continue -> loop update is no CFG edge")
    elif not forwarded:
        rep.violation(RID, key, m.rel, calls[0].lineno,
                      f"`{S}` is filtered for the switch's frontier but its other members (continue statements) are never handed to `{outer}`: they get "
                      f"no successor at all")
    else:
        rep.holds(RID, key, m.rel, calls[0].lineno, f"break statements of `{S}` join the frontier, the rest is handed to `{outer}`")
    rep.analysed["switch special lists"] = 1


def check_value_presence_tests(model: RepoModel, rep, RID: str, rel: str = "core/stmt_states.py", fname: str = "compute_two_states"):
    """In the constant folder a state's value (and the folded result) may be 0 or False.  A presence test on such a variable by
    truthiness drops exactly those values: the result set then misses a value the program computes and says nothing about it.
    Variables bound from `<state>.value` or from the evaluator's result must be tested through util.is_available / `is not None`."""
    m = model.module(rel)
    fs = [f for f in m.all_funcs() if f.name == fname]
    if not fs:
        raise AnalysisError(f"{rel}: {fname} vanished")
    f = fs[0]
    vals = set()
    for s in walk_no_nested(f.node):
        if isinstance(s, ast.Assign) and len(s.targets) == 1 and isinstance(s.targets[0], ast.Name):
            v = s.value
            if isinstance(v, ast.Attribute) and v.attr == "value":
                vals.add(s.targets[0].id)
            if isinstance(v, ast.Call) and (call_name(v) or "").split(".")[-1] in ("strict_eval", "common_eval", "eval"):
                vals.add(s.targets[0].id)
    if len(vals) < 2:
        raise AnalysisError(f"{fname}: operand / result value variables not recognised ({sorted(vals)})")
    n = 0
    bad = []
    for t in walk_no_nested(f.node):
        if not isinstance(t, (ast.If, ast.While, ast.IfExp)):
            continue
        stack = [t.test]
        while stack:
            e = stack.pop()
            if isinstance(e, ast.BoolOp):
                stack.extend(e.values)
            elif isinstance(e, ast.UnaryOp) and isinstance(e.op, ast.Not):
                stack.append(e.operand)
            elif isinstance(e, ast.Name) and e.id in vals:
                bad.append((e.id, t))
            elif isinstance(e, ast.Call) and (call_name(e) or "").split(".")[-1] in ("is_available", "is_empty", "isna", "is_none") and e.args \
                    and isinstance(e.args[0], ast.Name) and e.args[0].id in vals:
                n += 1
    key = f"{f.ref}::presence of a state value is not its truthiness"
    if bad:
        v, t = bad[0]
        rep.violation(RID, key, rel, t.lineno,
                      f"`{v}` holds a state value (or the folded result) and is tested by truthiness in `{norm(t.test)[:90]}`: the values 0 and False count "
                      f"as absent, the combination is dropped and the result set misses a value the program computes (u - u with u in {{1, 2}} gave {{-1, 1}})")
    elif n:
        rep.holds(RID, key, rel, f.node.lineno, f"{n} presence tests go through the availability helpers; none by truthiness ({sorted(vals)})")
    else:
        rep.unknown(RID, key, rel, f.node.lineno, "no presence test on the value variables recognised")
    rep.analysed["value presence tests in the folder"] = n + len(bad)
