"""E0 -- repository model: parsed modules, classes, functions, imports, callee resolution.

The model is built from source text only (``ast.parse``).  It never imports the
repository.  Resolution is name based (declared bases, import tables, constructor
calls, annotations); everything it cannot resolve is reported as unresolved and
rules treat that as UNKNOWN, never as a violation.
"""
from __future__ import annotations

import ast
import copy
import os
from dataclasses import dataclass, field
from typing import Dict, Iterable, Iterator, List, Optional, Tuple


class AnalysisError(Exception):
    """The analysis itself cannot proceed (vanished anchor, unsupported construct)."""


SRC_REL = "src/lian"


def unparse(node) -> str:
    try:
        return ast.unparse(node)
    except Exception:  # pragma: no cover
        return "<unparse failed>"


def norm(node) -> str:
    """Normalised text of a construct (used in instance keys; no line numbers)."""
    s = unparse(node)
    s = " ".join(s.split())
    return s if len(s) <= 160 else s[:157] + "..."


def dotted(node) -> Optional[str]:
    """``a.b.c`` for Name/Attribute chains, else None."""
    parts = []
    while isinstance(node, ast.Attribute):
        parts.append(node.attr)
        node = node.value
    if isinstance(node, ast.Name):
        parts.append(node.id)
        return ".".join(reversed(parts))
    return None


def call_name(call: ast.Call) -> Optional[str]:
    return dotted(call.func)


def is_self_attr(node, attr: Optional[str] = None, selfname: str = "self") -> bool:
    return (
        isinstance(node, ast.Attribute)
        and isinstance(node.value, ast.Name)
        and node.value.id == selfname
        and (attr is None or node.attr == attr)
    )


def walk_no_nested(node) -> Iterator[ast.AST]:
    """ast.walk that does not descend into nested function/class/lambda bodies."""
    stack = [node]
    first = True
    while stack:
        n = stack.pop()
        if not first and isinstance(n, (ast.FunctionDef, ast.AsyncFunctionDef, ast.ClassDef, ast.Lambda)):
            continue
        first = False
        yield n
        stack.extend(reversed(list(ast.iter_child_nodes(n))))


def walk_stmts(body: Iterable[ast.stmt]) -> Iterator[ast.stmt]:
    """All statements, depth-first in source order, not entering nested defs."""
    for st in body:
        yield st
        if isinstance(st, (ast.FunctionDef, ast.AsyncFunctionDef, ast.ClassDef)):
            continue
        for fld in ("body", "orelse", "finalbody"):
            sub = getattr(st, fld, None)
            if sub:
                yield from walk_stmts(sub)
        if isinstance(st, ast.Try):
            for h in st.handlers:
                yield from walk_stmts(h.body)
        if isinstance(st, ast.Match):
            for c in st.cases:
                yield from walk_stmts(c.body)


@dataclass
class Func:
    name: str
    node: ast.FunctionDef
    module: "Module"
    cls: Optional["ClassInfo"] = None

    @property
    def qualname(self) -> str:
        return f"{self.cls.name}.{self.name}" if self.cls else self.name

    @property
    def ref(self) -> str:
        return f"{self.module.rel}::{self.qualname}"

    @property
    def params(self) -> List[str]:
        a = self.node.args
        return [x.arg for x in a.posonlyargs + a.args]

    def __hash__(self):
        return id(self.node)

    def __eq__(self, other):
        return isinstance(other, Func) and other.node is self.node


@dataclass
class ClassInfo:
    name: str
    node: ast.ClassDef
    module: "Module"
    bases: List[str] = field(default_factory=list)
    methods: Dict[str, Func] = field(default_factory=dict)

    @property
    def ref(self) -> str:
        return f"{self.module.rel}::{self.name}"


def _normalise(tree):
    """Semantically void differences are removed before any rule looks at the tree: `pass` (and a bare `...`) next to other
    statements is dropped, and `else:` blocks consisting of one `if` are what `elif` already is in the AST.  Positions of the
    remaining nodes are untouched."""
    def void(st) -> bool:
        return isinstance(st, ast.Pass) or (isinstance(st, ast.Expr) and isinstance(st.value, ast.Constant) and st.value.value is Ellipsis)
    # == / != are symmetric: the constant-like operand goes to the right, a plain name to the right of a compound expression
    def rank(e) -> int:
        if isinstance(e, ast.Constant) or (isinstance(e, ast.UnaryOp) and isinstance(e.operand, ast.Constant)):
            return 3
        d = dotted(e)
        if d is not None and d.split(".")[-1].isupper():
            return 2
        if isinstance(e, ast.Name):
            return 1
        return 0
    for node in ast.walk(tree):
        if isinstance(node, ast.Compare) and len(node.ops) == 1 and isinstance(node.ops[0], (ast.Eq, ast.NotEq)) \
                and rank(node.left) > rank(node.comparators[0]):
            node.left, node.comparators[0] = node.comparators[0], node.left
    # list() / dict() / tuple() without arguments are the empty literals
    class _Empty(ast.NodeTransformer):
        def visit_Call(self, n):
            self.generic_visit(n)
            if isinstance(n.func, ast.Name) and not n.args and not n.keywords:
                if n.func.id == "list":
                    return ast.copy_location(ast.List(elts=[], ctx=ast.Load()), n)
                if n.func.id == "dict":
                    return ast.copy_location(ast.Dict(keys=[], values=[]), n)
                if n.func.id == "tuple":
                    return ast.copy_location(ast.Tuple(elts=[], ctx=ast.Load()), n)
            return n
    tree = _Empty().visit(tree)
    ast.fix_missing_locations(tree)
    # a local that merely names an attribute chain of self (`pm = self.path_manager`) is replaced by the chain in the statements that
    # follow it in the same block, up to its next assignment: rules then see `self.path_manager.add_path(...)` either way
    def is_self_chain(e) -> bool:
        while isinstance(e, ast.Attribute):
            e = e.value
        return isinstance(e, ast.Name) and e.id == "self"

    class _Subst(ast.NodeTransformer):
        def __init__(self, name, expr):
            self.name, self.expr = name, expr

        def visit_Name(self, n):
            if n.id == self.name and isinstance(n.ctx, ast.Load):
                return ast.copy_location(copy.deepcopy(self.expr), n)
            return n

        def visit_FunctionDef(self, n):
            return n
        visit_AsyncFunctionDef = visit_Lambda = visit_ClassDef = visit_FunctionDef

    def assigns(st, name) -> bool:
        for x in ast.walk(st):
            if isinstance(x, ast.Name) and x.id == name and isinstance(x.ctx, (ast.Store, ast.Del)):
                return True
        return False

    def propagate(block):
        i = 0
        while i < len(block):
            st = block[i]
            if isinstance(st, ast.Assign) and len(st.targets) == 1 and isinstance(st.targets[0], ast.Name) \
                    and isinstance(st.value, ast.Attribute) and is_self_chain(st.value):
                name = st.targets[0].id
                chain = dotted(st.value) or ""
                # the local is a snapshot of the value: it stops being a name for the chain as soon as the chain (or a prefix of it)
                # is stored to anywhere in the rest of the block (`old = self.x; self.x = new; ...; self.x = old`)
                def stores_chain(x) -> bool:
                    for y in ast.walk(x):
                        if isinstance(y, ast.Attribute) and isinstance(y.ctx, (ast.Store, ast.Del)):
                            d_ = dotted(y) or ""
                            if d_ and (chain == d_ or chain.startswith(d_ + ".")):
                                return True
                    return False
                if any(stores_chain(x) for x in block[i + 1:]):
                    i += 1
                    continue
                j = i + 1
                while j < len(block) and not assigns(block[j], name):
                    block[j] = _Subst(name, st.value).visit(block[j])
                    j += 1
                # a compound statement that re-assigns the name somewhere inside is left alone from there on
            i += 1
    for node in ast.walk(tree):
        if isinstance(node, (ast.FunctionDef, ast.AsyncFunctionDef)):
            for sub in ast.walk(node):
                for fld in ("body", "orelse", "finalbody"):
                    b = getattr(sub, fld, None)
                    if isinstance(b, list) and b and isinstance(b[0], ast.stmt):
                        propagate(b)
    # `if not c: A else: B` (B not an elif chain) is `if c: B else: A`: one polarity only, so that rules need not know both
    # `x = a if c else b` is `if c: x = a else: x = b`
    class _Tern(ast.NodeTransformer):
        def visit_Assign(self, n):
            if len(n.targets) == 1 and isinstance(n.targets[0], ast.Name) and isinstance(n.value, ast.IfExp):
                mk = lambda v: ast.copy_location(ast.Assign(targets=[ast.copy_location(ast.Name(id=n.targets[0].id, ctx=ast.Store()), n.targets[0])], value=v), n)
                return ast.copy_location(ast.If(test=n.value.test, body=[mk(n.value.body)], orelse=[mk(n.value.orelse)]), n)
            return n
    tree = _Tern().visit(tree)
    ast.fix_missing_locations(tree)
    # a temporary that only carries the result of a call into the next statement (`t = g(y)` directly followed by a statement that
    # reads `t` exactly once, as a positional argument of a call, `t` having no other definition or use in the function) is inlined:
    # "extract variable" and its reverse give one shape
    def inline_temps(fn):
        counts: Dict[str, List[int]] = {}
        for x in ast.walk(fn):
            if isinstance(x, ast.Name):
                c = counts.setdefault(x.id, [0, 0])
                c[0 if isinstance(x.ctx, ast.Store) else 1] += 1
        params = {a.arg for a in fn.args.posonlyargs + fn.args.args + fn.args.kwonlyargs}

        def block(stmts):
            out = []
            i = 0
            while i < len(stmts):
                st = stmts[i]
                nxt = stmts[i + 1] if i + 1 < len(stmts) else None
                if (isinstance(st, ast.Assign) and len(st.targets) == 1 and isinstance(st.targets[0], ast.Name) and isinstance(st.value, ast.Call)
                        and counts.get(st.targets[0].id) == [1, 1] and st.targets[0].id not in params and nxt is not None
                        and isinstance(nxt, (ast.Assign, ast.Expr, ast.Return, ast.AugAssign)) and getattr(nxt, "value", None) is not None):
                    t = st.targets[0].id
                    site = None
                    for c in ast.walk(nxt.value):
                        if isinstance(c, ast.Call):
                            for k, a in enumerate(c.args):
                                if isinstance(a, ast.Name) and a.id == t:
                                    site = (c, k)
                    if site is not None:
                        site[0].args[site[1]] = st.value
                        i += 1
                        continue
                out.append(st)
                i += 1
            return out
        for node in ast.walk(fn):
            if node is not fn and isinstance(node, (ast.FunctionDef, ast.AsyncFunctionDef)):
                continue
            for fld in ("body", "orelse", "finalbody"):
                b = getattr(node, fld, None)
                if isinstance(b, list) and b and isinstance(b[0], ast.stmt):
                    setattr(node, fld, block(b))
    for node in ast.walk(tree):
        if isinstance(node, (ast.FunctionDef, ast.AsyncFunctionDef)):
            inline_temps(node)
    # `if c: <body that always leaves> else: B` is `if c: <body>` followed by B: the else branch is lifted out (so a guard clause and the
    # nested if/else form of the same code are one shape; elif chains whose arms all return become a sequence of ifs)
    def leaves(body) -> bool:
        return bool(body) and isinstance(body[-1], (ast.Return, ast.Continue, ast.Break, ast.Raise))

    def lift(stmts):
        out = []
        for st in stmts:
            # the arm that always leaves becomes the guard clause (negating the test when it is the else arm)
            if isinstance(st, ast.If) and st.orelse and leaves(st.orelse) and not leaves(st.body) \
                    and not (len(st.orelse) == 1 and isinstance(st.orelse[0], ast.If)):
                t = st.test
                st.test = t.operand if isinstance(t, ast.UnaryOp) and isinstance(t.op, ast.Not) else ast.copy_location(ast.UnaryOp(op=ast.Not(), operand=t), t)
                st.body, st.orelse = st.orelse, st.body
            if isinstance(st, ast.If) and st.orelse and leaves(st.body):
                rest, st.orelse = st.orelse, []
                out.append(st)
                out.extend(lift(rest))
            else:
                out.append(st)
        return out
    for node in list(ast.walk(tree)):
        for fld in ("body", "orelse", "finalbody"):
            b = getattr(node, fld, None)
            if isinstance(b, list) and b and isinstance(b[0], ast.stmt):
                setattr(node, fld, lift(b))
    for node in ast.walk(tree):
        if isinstance(node, ast.If) and node.orelse and isinstance(node.test, ast.UnaryOp) and isinstance(node.test.op, ast.Not) \
                and not (len(node.orelse) == 1 and isinstance(node.orelse[0], ast.If)):
            node.test, node.body, node.orelse = node.test.operand, node.orelse, node.body
    for node in ast.walk(tree):
        for fld in ("body", "orelse", "finalbody"):
            b = getattr(node, fld, None)
            if isinstance(b, list) and len(b) > 1 and all(isinstance(x, ast.stmt) for x in b):
                kept = [x for x in b if not void(x)]
                if kept and len(kept) != len(b):
                    setattr(node, fld, kept)
                elif not kept and fld != "body":
                    setattr(node, fld, [])
    return tree


class Module:
    def __init__(self, root: str, rel: str):
        self.root = root
        self.rel = rel  # relative to src/lian, e.g. util/loader.py
        self.path = os.path.join(root, SRC_REL, rel)
        with open(self.path, "r", encoding="utf-8") as f:
            self.source = f.read()
        try:
            self.tree = _normalise(ast.parse(self.source, filename=self.path))
        except SyntaxError as e:
            raise AnalysisError(f"cannot parse {self.path}: {e}")
        self.modname = "lian." + rel[:-3].replace("/", ".")
        if self.modname.endswith(".__init__"):
            self.modname = self.modname[: -len(".__init__")]
        self.functions: Dict[str, Func] = {}
        self.classes: Dict[str, ClassInfo] = {}
        # alias -> ("module", fq) or ("symbol", fqmodule, name)
        self.imports: Dict[str, Tuple] = {}
        self.assigns: Dict[str, ast.AST] = {}  # module level NAME = value
        self._index()

    def _index(self):
        for st in self.tree.body:
            if isinstance(st, (ast.FunctionDef, ast.AsyncFunctionDef)):
                self.functions[st.name] = Func(st.name, st, self)
            elif isinstance(st, ast.ClassDef):
                ci = ClassInfo(st.name, st, self, [dotted(b) or unparse(b) for b in st.bases])
                for sub in st.body:
                    if isinstance(sub, (ast.FunctionDef, ast.AsyncFunctionDef)):
                        ci.methods[sub.name] = Func(sub.name, sub, self, ci)
                self.classes[st.name] = ci
            elif isinstance(st, ast.Assign):
                for t in st.targets:
                    if isinstance(t, ast.Name):
                        self.assigns[t.id] = st.value
            elif isinstance(st, ast.AnnAssign) and isinstance(st.target, ast.Name) and st.value is not None:
                self.assigns[st.target.id] = st.value
        for st in ast.walk(self.tree):
            if isinstance(st, ast.Import):
                for a in st.names:
                    if a.asname:
                        self.imports[a.asname] = ("module", a.name)
                    else:
                        # ``import a.b.c`` binds ``a``; record the full dotted path too
                        self.imports.setdefault(a.name.split(".")[0], ("module", a.name.split(".")[0]))
                        self.imports[a.name] = ("module", a.name)
            elif isinstance(st, ast.ImportFrom) and st.module:
                for a in st.names:
                    self.imports[a.asname or a.name] = ("from", st.module, a.name)

    def all_funcs(self, nested: bool = True) -> Iterator[Func]:
        """module functions and methods; with ``nested`` also the functions defined inside them (named `outer.inner`, sharing the
        class of the enclosing method: closures use its `self`).  The per-function walkers skip nested definitions, so without this
        the code inside a closure would be analysed by nobody."""
        tops = list(self.functions.values())
        for c in self.classes.values():
            tops.extend(c.methods.values())
        for f in tops:
            yield f
            if nested:
                yield from self._nested_of(f)

    def _nested_of(self, f: Func) -> Iterator[Func]:
        cache = self.__dict__.setdefault("_nested_cache", {})
        if id(f.node) not in cache:
            out = []

            def rec(node, prefix):
                for ch in ast.iter_child_nodes(node):
                    if isinstance(ch, (ast.FunctionDef, ast.AsyncFunctionDef)):
                        g = Func(f"{prefix}.{ch.name}", ch, self, f.cls)
                        out.append(g)
                        rec(ch, g.name)
                    elif not isinstance(ch, (ast.ClassDef, ast.Lambda)):
                        rec(ch, prefix)
            rec(f.node, f.name)
            cache[id(f.node)] = out
        return iter(cache[id(f.node)])

    def line(self, node) -> int:
        return getattr(node, "lineno", 0)


class RepoModel:
    def __init__(self, root: str = "/repo"):
        self.root = os.path.abspath(root)
        base = os.path.join(self.root, SRC_REL)
        if not os.path.isdir(base):
            raise AnalysisError(f"{base} is not a directory")
        self.modules: Dict[str, Module] = {}  # rel -> Module
        for dp, dn, fn in os.walk(base):
            dn.sort()
            for f in sorted(fn):
                if f.endswith(".py"):
                    rel = os.path.relpath(os.path.join(dp, f), base)
                    self.modules[rel] = Module(self.root, rel)
        self.by_modname: Dict[str, Module] = {m.modname: m for m in self.modules.values()}
        self.class_index: Dict[str, List[ClassInfo]] = {}
        for m in self.modules.values():
            for c in m.classes.values():
                self.class_index.setdefault(c.name, []).append(c)
        self._attr_type_cache: Dict[Tuple[int, str], Optional[ClassInfo]] = {}

    # ------------------------------------------------------------------ lookup
    def module(self, rel: str) -> Module:
        m = self.modules.get(rel)
        if m is None:
            raise AnalysisError(f"anchor module vanished: {SRC_REL}/{rel}")
        return m

    def cls(self, rel: str, name: str) -> ClassInfo:
        c = self.module(rel).classes.get(name)
        if c is None:
            raise AnalysisError(f"anchor class vanished: {rel}::{name}")
        return c

    def func(self, rel: str, qual: str) -> Func:
        m = self.module(rel)
        if "." in qual:
            cn, fn = qual.split(".", 1)
            c = m.classes.get(cn)
            f = c.methods.get(fn) if c else None
        else:
            f = m.functions.get(qual)
        if f is None:
            raise AnalysisError(f"anchor function vanished: {rel}::{qual}")
        return f

    def try_func(self, rel: str, qual: str) -> Optional[Func]:
        try:
            return self.func(rel, qual)
        except AnalysisError:
            return None

    def all_funcs(self) -> Iterator[Func]:
        for m in self.modules.values():
            yield from m.all_funcs()

    # ------------------------------------------------------------- class graph
    def resolve_class_name(self, name: str, ctx: Module) -> Optional[ClassInfo]:
        """Resolve a (possibly dotted) class name as seen from module ``ctx``."""
        if name is None:
            return None
        parts = name.split(".")
        if len(parts) == 1:
            if name in ctx.classes:
                return ctx.classes[name]
            imp = ctx.imports.get(name)
            if imp and imp[0] == "from":
                m = self.by_modname.get(imp[1])
                if m and imp[2] in m.classes:
                    return m.classes[imp[2]]
            cands = self.class_index.get(name, [])
            if len(cands) == 1:
                return cands[0]
            return None
        mod = self.resolve_module_alias(".".join(parts[:-1]), ctx)
        if mod and parts[-1] in mod.classes:
            return mod.classes[parts[-1]]
        cands = self.class_index.get(parts[-1], [])
        if len(cands) == 1:
            return cands[0]
        return None

    def resolve_module_alias(self, name: str, ctx: Module) -> Optional[Module]:
        imp = ctx.imports.get(name)
        if imp:
            if imp[0] == "module":
                return self.by_modname.get(imp[1])
            if imp[0] == "from":
                return self.by_modname.get(f"{imp[1]}.{imp[2]}")
        return self.by_modname.get(name)

    def mro(self, c: ClassInfo) -> List[ClassInfo]:
        cache = self.__dict__.setdefault("_mro_cache", {})
        if id(c.node) in cache:
            return cache[id(c.node)]
        out, seen = [], set()

        def rec(ci):
            if id(ci) in seen:
                return
            seen.add(id(ci))
            out.append(ci)
            for b in ci.bases:
                bc = self.resolve_class_name(b, ci.module)
                if bc:
                    rec(bc)

        rec(c)
        cache[id(c.node)] = out
        return out

    def subclasses(self, c: ClassInfo) -> List[ClassInfo]:
        cache = self.__dict__.setdefault("_sub_cache", {})
        if id(c.node) in cache:
            return cache[id(c.node)]
        out = []
        for m in self.modules.values():
            for k in m.classes.values():
                if k is not c and c in self.mro(k):
                    out.append(k)
        cache[id(c.node)] = out
        return out

    def find_method(self, c: ClassInfo, name: str) -> Optional[Func]:
        for k in self.mro(c):
            if name in k.methods:
                return k.methods[name]
        return None

    # ---------------------------------------------------------- attribute types
    def attr_class(self, c: ClassInfo, attr: str) -> Optional[ClassInfo]:
        """Class of ``self.<attr>`` from annotations / constructor calls / annotated params."""
        key = (id(c.node), attr)
        if key in self._attr_type_cache:
            return self._attr_type_cache[key]
        self._attr_type_cache[key] = None
        res = None
        for k in self.mro(c):
            for f in k.methods.values():
                ann = {a.arg: a.annotation for a in f.node.args.args if a.annotation is not None}
                for n in walk_no_nested(f.node):
                    tgt = val = annot = None
                    if isinstance(n, ast.Assign) and len(n.targets) == 1:
                        tgt, val = n.targets[0], n.value
                    elif isinstance(n, ast.AnnAssign):
                        tgt, val, annot = n.target, n.value, n.annotation
                    if tgt is None or not is_self_attr(tgt, attr):
                        continue
                    if annot is not None:
                        res = self.resolve_class_name(dotted(annot) or "", k.module)
                    if res is None and isinstance(val, ast.Call):
                        res = self.resolve_class_name(call_name(val) or "", k.module)
                    if res is None and isinstance(val, ast.Name) and val.id in ann:
                        res = self.resolve_class_name(dotted(ann[val.id]) or "", k.module)
                    if res is None and isinstance(val, ast.Attribute):
                        # self.x = other.y  where other's class is known
                        base = self.expr_class(val.value, f)
                        if base is not None:
                            res = self.attr_class(base, val.attr)
                    if res is not None:
                        break
                if res is not None:
                    break
            if res is not None:
                break
        self._attr_type_cache[key] = res
        return res

    def expr_class(self, e, f: Func) -> Optional[ClassInfo]:
        """Static class of expression ``e`` inside function ``f`` (best effort)."""
        if isinstance(e, ast.Name):
            if e.id == "self" and f.cls:
                return f.cls
            for a in f.node.args.args + f.node.args.kwonlyargs:
                if a.arg == e.id and a.annotation is not None:
                    return self.resolve_class_name(dotted(a.annotation) or "", f.module)
            # local ``x = Cls(...)`` (single assignment)
            found = None
            for n in walk_no_nested(f.node):
                if isinstance(n, ast.Assign) and len(n.targets) == 1 and isinstance(n.targets[0], ast.Name) \
                        and n.targets[0].id == e.id:
                    if isinstance(n.value, ast.Call):
                        c = self.resolve_class_name(call_name(n.value) or "", f.module)
                        if c is not None:
                            if found is not None and found is not c:
                                return None
                            found = c
                    elif isinstance(n.value, ast.Attribute):
                        b = self.expr_class(n.value.value, f) if not (isinstance(n.value.value, ast.Name) and n.value.value.id == e.id) else None
                        if b is not None:
                            c = self.attr_class(b, n.value.attr)
                            if c is not None:
                                found = c
                elif isinstance(n, ast.AnnAssign) and isinstance(n.target, ast.Name) and n.target.id == e.id:
                    c = self.resolve_class_name(dotted(n.annotation) or "", f.module)
                    if c is not None:
                        found = c
            return found
        if isinstance(e, ast.Attribute):
            b = self.expr_class(e.value, f)
            if b is not None:
                return self.attr_class(b, e.attr)
        if isinstance(e, ast.Call):
            return self.resolve_class_name(call_name(e) or "", f.module)
        return None

    # ------------------------------------------------------------------- calls
    def resolve_call(self, call: ast.Call, f: Func) -> List[Func]:
        """Possible callees of ``call`` occurring in ``f``. [] = unresolved/external."""
        fn = call.func
        if isinstance(fn, ast.Name):
            name = fn.id
            if name in f.module.functions:
                return [f.module.functions[name]]
            imp = f.module.imports.get(name)
            if imp and imp[0] == "from":
                m = self.by_modname.get(imp[1])
                if m:
                    if imp[2] in m.functions:
                        return [m.functions[imp[2]]]
                    if imp[2] in m.classes:
                        init = self.find_method(m.classes[imp[2]], "__init__")
                        return [init] if init else []
            c = self.resolve_class_name(name, f.module) if name[:1].isupper() else None
            if c:
                init = self.find_method(c, "__init__")
                return [init] if init else []
            return []
        if isinstance(fn, ast.Attribute):
            base = fn.value
            # super().m(...)
            if isinstance(base, ast.Call) and isinstance(base.func, ast.Name) and base.func.id == "super" and f.cls:
                for k in self.mro(f.cls)[1:]:
                    if fn.attr in k.methods:
                        return [k.methods[fn.attr]]
                return []
            # self.m(...): the method in the class or bases, plus overrides in subclasses
            if isinstance(base, ast.Name) and base.id == "self" and f.cls:
                m = self.find_method(f.cls, fn.attr)
                out = [m] if m else []
                for sc in self.subclasses(f.cls):
                    if fn.attr in sc.methods and sc.methods[fn.attr] not in out:
                        out.append(sc.methods[fn.attr])
                return out
            # module.f(...) / module.Cls(...)
            d = dotted(base)
            if d:
                mod = self.resolve_module_alias(d, f.module)
                if mod:
                    if fn.attr in mod.functions:
                        return [mod.functions[fn.attr]]
                    if fn.attr in mod.classes:
                        init = self.find_method(mod.classes[fn.attr], "__init__")
                        return [init] if init else []
                    return []
            # expr.m(...) with known class of expr
            c = self.expr_class(base, f)
            if c:
                m = self.find_method(c, fn.attr)
                out = [m] if m else []
                for sc in self.subclasses(c):
                    if fn.attr in sc.methods and sc.methods[fn.attr] not in out:
                        out.append(sc.methods[fn.attr])
                return out
        return []

    def calls_in(self, f: Func) -> Iterator[ast.Call]:
        for n in walk_no_nested(f.node):
            if isinstance(n, ast.Call):
                yield n

    def callgraph(self):
        """networkx DiGraph over Func.ref with resolved call edges (built lazily)."""
        if getattr(self, "_cg", None) is not None:
            return self._cg
        import networkx as nx

        g = nx.DiGraph()
        self._func_by_ref = {}
        unresolved = 0
        total = 0
        for f in self.all_funcs():
            g.add_node(f.ref)
            self._func_by_ref[f.ref] = f
        for f in list(self.all_funcs()):
            for c in self.calls_in(f):
                total += 1
                tg = self.resolve_call(c, f)
                if not tg:
                    unresolved += 1
                for t in tg:
                    g.add_edge(f.ref, t.ref)
        self._cg = g
        self.cg_stats = {"calls": total, "unresolved_or_external": unresolved}
        return g

    def func_by_ref(self, ref: str) -> Optional[Func]:
        self.callgraph()
        return self._func_by_ref.get(ref)


# --------------------------------------------------------------------- helpers
def const_str(node) -> Optional[str]:
    if isinstance(node, ast.Constant) and isinstance(node.value, str):
        return node.value
    return None


def literal(node):
    """ast.literal_eval that returns a sentinel on failure."""
    try:
        return ast.literal_eval(node)
    except Exception:
        return NotImplemented


def enclosing_map(root) -> Dict[int, ast.AST]:
    """id(child) -> parent for every node under ``root``."""
    parents = {}
    for p in ast.walk(root):
        for c in ast.iter_child_nodes(p):
            parents[id(c)] = p
    return parents


_CANON_KEEP = {"self", "cls", "True", "False", "None", "not", "and", "or", "in", "is", "if", "else", "for", "lambda", "del", "return",
               "break", "continue", "yield", "await", "async", "with", "as", "from", "import", "raise", "while", "try", "except", "finally",
               "pass", "global", "nonlocal", "assert", "class", "def", "elif"}
_CANON_RE = __import__("re").compile(r"(?<![.\w'\"])([A-Za-z_]\w*)(?![\w]*\s*\()(?![\w'\"])")


def canon_code(text: str) -> str:
    """Code text with every free-standing identifier (not an attribute name, not a called name, not a keyword, not ALL_CAPS)
    replaced by a placeholder numbered by first appearance: local-variable renames do not change the result."""
    names: Dict[str, str] = {}

    def sub(m):
        w = m.group(1)
        if w in _CANON_KEEP or w.isupper() or (w[:1].isupper() and not w.islower() and "_" not in w and len(w) > 1 and w[1:].lower() != w[1:]):
            return w
        if w not in names:
            names[w] = f"_{len(names) + 1}"
        return names[w]
    return _CANON_RE.sub(sub, text)


def canon_key(key: str) -> str:
    """Instance key with the code quoted in back-ticks canonicalised (see canon_code); everything else is kept verbatim."""
    parts = key.split("`")
    for i in range(1, len(parts), 2):
        parts[i] = canon_code(parts[i])
    return "`".join(parts)


def effective_body(fnode) -> List[ast.stmt]:
    """Body of a function with the docstring removed and transparent wrappers unwrapped: a body that consists of a single
    `if <constant true>:`, `with ...:` or `try: ... finally: ...` (no handlers) statement is replaced by that statement's body."""
    body = list(fnode.body)
    if body and isinstance(body[0], ast.Expr) and isinstance(body[0].value, ast.Constant) and isinstance(body[0].value.value, str):
        body = body[1:]
    while len(body) == 1:
        st = body[0]
        if isinstance(st, ast.If) and isinstance(st.test, ast.Constant) and st.test.value and not st.orelse:
            body = list(st.body)
        elif isinstance(st, (ast.With, ast.AsyncWith)):
            body = list(st.body)
        elif isinstance(st, ast.Try) and not st.handlers and not st.orelse:
            body = list(st.body)
        else:
            break
    return body
