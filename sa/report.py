"""Verdict bookkeeping, evidence files, known findings, exit codes (DESIGN 2.2)."""
from __future__ import annotations

import hashlib
import json
import os
import sys
import time
from dataclasses import dataclass, field
from typing import Any, Dict, List, Optional

VERIF_DIR = os.path.dirname(os.path.dirname(os.path.abspath(__file__)))
KNOWN_FINDINGS = os.path.join(VERIF_DIR, "known_findings.json")

HOLDS, VIOLATION, UNKNOWN, INFO = "HOLDS", "VIOLATION", "UNKNOWN", "INFO"


@dataclass
class Instance:
    rule: str              # e.g. C16.R1
    key: str               # rule :: file :: function :: construct  (no line numbers)
    status: str            # HOLDS / VIOLATION / UNKNOWN / INFO
    file: str = ""
    line: int = 0
    what: str = ""         # one line: obligation and how it was decided
    detail: Dict[str, Any] = field(default_factory=dict)


def load_known(path: str = KNOWN_FINDINGS) -> List[dict]:
    if not os.path.exists(path):
        return []
    with open(path, "r", encoding="utf-8") as f:
        data = json.load(f)
    return data.get("findings", [])


class Report:
    def __init__(self, property_id: str, tier: str, evidence_dir: str, repo_root: str):
        self.pid = property_id
        self.tier = tier
        self.evidence_dir = evidence_dir
        self.repo_root = repo_root
        self.instances: List[Instance] = []
        self.rules: Dict[str, str] = {}       # rule id -> statement of the rule
        self.min_instances: Dict[str, int] = {}
        self.analysed: Dict[str, Any] = {}
        self.assumptions: List[str] = []
        self.not_decided: str = ""
        self.t0 = time.time()
        self.extra_cov: Dict[str, Any] = {}

    # ------------------------------------------------------------------ input
    def rule(self, rid: str, text: str, min_instances: int = 1):
        self.rules[rid] = text
        self.min_instances[rid] = min_instances

    def add(self, rule: str, key: str, status: str, file: str = "", line: int = 0, what: str = "", **detail):
        assert rule in self.rules, f"undeclared rule {rule}"
        full = f"{rule}::{key}"
        self.instances.append(Instance(rule, full, status, file, line, what, detail))

    def holds(self, rule, key, file="", line=0, what="", **d):
        self.add(rule, key, HOLDS, file, line, what, **d)

    def violation(self, rule, key, file="", line=0, what="", **d):
        self.add(rule, key, VIOLATION, file, line, what, **d)

    def unknown(self, rule, key, file="", line=0, what="", **d):
        self.add(rule, key, UNKNOWN, file, line, what, **d)

    def info(self, rule, key, file="", line=0, what="", **d):
        self.add(rule, key, INFO, file, line, what, **d)

    # ----------------------------------------------------------------- output
    def finish(self, known_path: str = KNOWN_FINDINGS, quiet: bool = False, emit: bool = True) -> int:
        from .model import AnalysisError

        # vacuity guard: every rule must have matched at least its confirmed minimum
        counts: Dict[str, int] = {r: 0 for r in self.rules}
        for i in self.instances:
            if i.status in (HOLDS, VIOLATION):
                counts[i.rule] += 1
        from .model import canon_key
        _known_now = {canon_key(k["key"]) for k in load_known(known_path) if k.get("property") == self.pid and k.get("status") == "known"}
        has_violation = any(i.status == VIOLATION and canon_key(i.key) not in _known_now for i in self.instances)
        for r, mn in self.min_instances.items():
            # a rule may legitimately stop early after reporting a violation its other parts depend on
            if counts[r] < mn and not has_violation:
                raise AnalysisError(
                    f"rule {r} decided {counts[r]} instance(s), fewer than the {mn} confirmed by hand "
                    f"(anchors moved or recogniser no longer matches; refusing to pass vacuously)")

        known = [k for k in load_known(known_path) if k.get("property") == self.pid]
        # keys are compared with the code quoted in back-ticks canonicalised, so that renaming a local variable neither hides
        # nor resurrects a finding (model.canon_key)
        _known_c = {canon_key(k["key"]): k for k in known if k.get("status") == "known"}
        _fixed_c = {canon_key(k["key"]): k for k in known if str(k.get("status", "")).startswith("fixed")}
        viol = [i for i in self.instances if i.status == VIOLATION]
        known_keys = {i.key: _known_c[canon_key(i.key)] for i in viol if canon_key(i.key) in _known_c}
        fixed_keys = {i.key: _fixed_c[canon_key(i.key)] for i in viol if canon_key(i.key) in _fixed_c}
        new_viol = [i for i in viol if i.key not in known_keys]
        known_hit = [i for i in viol if i.key in known_keys]
        _viol_c = {canon_key(i.key) for i in viol}
        stale_known = [k["key"] for c, k in _known_c.items() if c not in _viol_c]

        os.makedirs(self.evidence_dir, exist_ok=True)
        replay_dir = os.path.join(self.evidence_dir, "replay")
        lines = []
        for i in known_hit:
            lines.append(f"KNOWN-FINDING: property={self.pid} {i.key} -- {known_keys[i.key].get('what', i.what)}")
        for i in new_viol:
            os.makedirs(replay_dir, exist_ok=True)
            h = hashlib.sha1(i.key.encode()).hexdigest()[:12]
            rp = os.path.join(replay_dir, f"{self.pid}-{h}.json")
            with open(rp, "w", encoding="utf-8") as f:
                json.dump({
                    "property": self.pid, "rule": i.rule, "rule_text": self.rules[i.rule], "key": i.key,
                    "file": i.file, "line": i.line, "what": i.what, "detail": i.detail,
                    "returned_after_fix": i.key in fixed_keys,
                    "how_to_replay": f"cd {VERIF_DIR} && /venv/bin/python -m sa.check {self.pid} --replay {rp}",
                }, f, indent=1, default=str)
            lines.append(f"  {i.file}:{i.line}: [{i.rule}] {i.what}")
            lines.append(f"VIOLATION property={self.pid} replay={rp}")

        by_status: Dict[str, int] = {}
        for i in self.instances:
            by_status[i.status] = by_status.get(i.status, 0) + 1
        decided = [i for i in self.instances if i.status in (HOLDS, VIOLATION)]
        distinct = len({i.key for i in decided})

        def sample(i: Instance):
            return {"rule": i.rule, "instance": i.key, "status": i.status if i.key not in known_keys or i.status != VIOLATION else "KNOWN-FINDING",
                    "where": f"{i.file}:{i.line}", "what": i.what}

        samples = [sample(i) for i in viol] + [sample(i) for i in self.instances if i.status == UNKNOWN][:10]
        per_rule_seen: Dict[str, int] = {}
        for i in self.instances:
            if i.status == HOLDS and per_rule_seen.get(i.rule, 0) < 4:
                per_rule_seen[i.rule] = per_rule_seen.get(i.rule, 0) + 1
                samples.append(sample(i))
        info_samples = [sample(i) for i in self.instances if i.status == INFO][:15]

        evidence = {
            "property_id": self.pid,
            "tier": self.tier,
            "seed": int(os.environ.get("VERIF_SEED", "0") or 0),
            "level": "other",
            "coverage": {
                "explanation": (
                    "Static rule check over the current source of the repository (ast, per-function CFG, "
                    "def-use and call graph); each rule is a necessary structural condition of the property. "
                    "Decides the structural obligations listed under 'rules'; does NOT decide: " + (self.not_decided or "n/a")),
                "rules": self.rules,
                "obligations": len(decided),
                "discharged": len([i for i in decided if i.status == HOLDS]),
                "evaluations": max(1, len(self.instances)),
                "distinct_nontrivial": distinct,
                "rule": "one case per rule instance (rule x function/call-site/table-row found in the source); "
                        "distinct by instance key; non-trivial = the rule's recogniser matched the construct and reached HOLDS or VIOLATION "
                        "(UNKNOWN and INFO instances are not counted)",
                "by_status": by_status,
                "per_rule_decided": counts,
                "known_findings_matched": [i.key for i in known_hit],
                "known_findings_not_reproduced": stale_known,
                "new_violations": [i.key for i in new_viol],
                "unknown_instances": [i.key for i in self.instances if i.status == UNKNOWN],
                "analysed": self.analysed,
                "samples": samples,
                "information": info_samples,
                "exhaustive": False,
                **self.extra_cov,
            },
            "assumptions": self.assumptions + [
                "name/annotation based callee resolution (no type checker available offline)",
                "every syntactic path is treated as feasible; implicit exceptions outside try are ignored",
            ],
            "wall_s": round(time.time() - self.t0, 3),
            "violations": len(new_viol),
        }
        with open(os.path.join(self.evidence_dir, f"{self.pid}.json"), "w", encoding="utf-8") as f:
            json.dump(evidence, f, indent=1, default=str)

        if not quiet:
            print(f"[{self.pid}] tier={self.tier} repo={self.repo_root} rules={len(self.rules)} "
                  f"instances={len(self.instances)} {by_status} wall={evidence['wall_s']}s")
            for r in sorted(self.rules):
                print(f"  {r}: decided={counts[r]} (min {self.min_instances[r]})  {self.rules[r][:110]}")
            for i in self.instances:
                if i.status == UNKNOWN:
                    print(f"  UNKNOWN {i.key} @ {i.file}:{i.line} {i.what}")
            for k in stale_known:
                print(f"  NOTE: known finding no longer reproduced: {k}")
        if emit:
            for ln in lines:
                print(ln)
        sys.stdout.flush()
        return 1 if new_viol else 0
