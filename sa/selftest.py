"""Checker self-test (DESIGN 2.3): run each property's rules on AST-computed mutants
of a scratch copy of the analysed sources.  Each mutant still compiles; the rules must
report a VIOLATION whose key names the mutated construct, and be silent on the
unmutated copy.  This executes the *checker* on mutated source text -- it never runs lian.

A self-test failure is a defect of the checker, not of the repository: exit 2.
"""
from __future__ import annotations

import concurrent.futures as cf
import importlib
import json
import os
import shutil
import sys
import tempfile
import time
import traceback

from .model import SRC_REL, AnalysisError
from .report import KNOWN_FINDINGS, VERIF_DIR

EXTRA_DIRS = ["default_settings"]


def _copy_tree(repo: str, dst: str):
    shutil.copytree(os.path.join(repo, SRC_REL), os.path.join(dst, SRC_REL),
                    ignore=shutil.ignore_patterns("__pycache__", "*.pyc", "*.so"))
    for d in EXTRA_DIRS:
        s = os.path.join(repo, d)
        if os.path.isdir(s):
            shutil.copytree(s, os.path.join(dst, d))


def _run_one(args):
    pid, repo, name, rel, idx, expect = args
    from .check import run_property  # noqa
    from .report import Report
    from .model import RepoModel
    mod = importlib.import_module(f"sa.rules.{pid.lower()}")
    mut = mod.MUTANTS[idx][2] if idx >= 0 else _seed_mutator(name[len("seed-"):])
    tmp = tempfile.mkdtemp(prefix=f"sa-mut-{pid}-")
    try:
        _copy_tree(repo, tmp)
        base = tmp if not rel.startswith("@") else tmp
        path = os.path.join(tmp, rel[1:]) if rel.startswith("@") else os.path.join(tmp, SRC_REL, rel)
        with open(path, "r", encoding="utf-8") as f:
            src = f.read()
        try:
            new = mut(src)
        except Exception as e:
            return (name, "MUTATION-FAILED", f"{type(e).__name__}: {e}")
        if new == src:
            return (name, "MUTATION-FAILED", "mutation left the source unchanged")
        with open(path, "w", encoding="utf-8") as f:
            f.write(new)
        ev = os.path.join(tmp, "evidence")
        try:
            model = RepoModel(tmp)
            rep = Report(pid, "quick", ev, tmp)
            mod.run(model, rep, "quick")
            try:
                rep.finish(KNOWN_FINDINGS, quiet=True, emit=False)
            except AnalysisError as e:
                # vacuity guard tripped: acceptable detection only if the mutant declares it
                if expect == "@BROKEN":
                    return (name, "DETECTED", f"analysis refuses to pass: {e}")
                return (name, "MISSED", f"ANALYSIS-ERROR instead of a violation: {e}")
        except AnalysisError as e:
            if expect == "@BROKEN":
                return (name, "DETECTED", f"analysis refuses to pass: {e}")
            return (name, "MISSED", f"ANALYSIS-ERROR instead of a violation: {e}")
        from .report import load_known, VIOLATION
        known = {k["key"] for k in load_known() if k.get("property") == pid and k.get("status") == "known"}
        viol = [i for i in rep.instances if i.status == VIOLATION and i.key not in known]
        hit = [i for i in viol if expect in i.key]
        if hit:
            return (name, "DETECTED", hit[0].key)
        if viol:
            return (name, "MISSED", "violation reported but not naming the mutated construct: " + viol[0].key)
        return (name, "MISSED", "no violation reported")
    except Exception as e:
        return (name, "ERROR", traceback.format_exc(limit=3))
    finally:
        shutil.rmtree(tmp, ignore_errors=True)


def _seed_mutator(sid: str):
    """the kept seeded change <sid> as a mutant: its patch applied to the one source file it touches (scratch copy only)"""
    import subprocess

    def mut(src: str) -> str:
        d = tempfile.mkdtemp(prefix="sa-seedmut-")
        try:
            fp = os.path.join(d, "f.py")
            with open(fp, "w", encoding="utf-8") as f:
                f.write(src)
            r = subprocess.run(["patch", "-s", "--no-backup-if-mismatch", fp, os.path.join(VERIF_DIR, "seeded", sid, "patch.diff")], capture_output=True, text=True)
            if r.returncode != 0:
                raise RuntimeError("seed patch does not apply to the current source: " + (r.stdout + r.stderr)[-160:])
            with open(fp, encoding="utf-8") as f:
                return f.read()
        finally:
            shutil.rmtree(d, ignore_errors=True)
    return mut


def seed_mutants(pid: str):
    """[(name, relfile, expected key prefix)] for the kept seeded changes of this property that its own check detects (per
    seeded/MATRIX.json) and that touch exactly one file under src/lian"""
    out = []
    try:
        with open(os.path.join(VERIF_DIR, "seeded", "MATRIX.json")) as f:
            mx = json.load(f)
    except Exception:
        return out
    for sid, r in sorted(mx.items()):
        if not sid.startswith(pid) or pid not in r.get("detected_by", {}):
            continue
        pth = os.path.join(VERIF_DIR, "seeded", sid, "patch.diff")
        try:
            files = [l[6:].strip() for l in open(pth, encoding="utf-8") if l.startswith("+++ b/")]
        except Exception:
            continue
        if len(files) != 1 or not files[0].startswith(SRC_REL + "/"):
            continue
        keys = [k for k in r["detected_by"][pid] if not k.startswith("ANALYSIS-ERROR")]
        if not keys:
            continue
        # expected: rule id and file of the first reported instance (stable under small refactorings of the key text)
        out.append((f"seed-{sid}", files[0][len(SRC_REL) + 1:], "::".join(keys[0].split("::")[1:3])))
    return out


def _verdict_keys(pid: str, root: str):
    """canonical keys of the new violations (and known-finding hits) the property's rules report on the tree under `root`"""
    from .report import Report, load_known, VIOLATION
    from .model import RepoModel, canon_key
    mod = importlib.import_module(f"sa.rules.{pid.lower()}")
    ev = tempfile.mkdtemp(prefix="sa-rob-ev-")
    try:
        model = RepoModel(root)
        rep = Report(pid, "quick", ev, root)
        mod.run(model, rep, "quick")
        try:
            rep.finish(KNOWN_FINDINGS, quiet=True, emit=False)
        except AnalysisError as e:
            return {"@analysis-error: " + str(e)[:160]}
        return {canon_key(i.key) for i in rep.instances if i.status == VIOLATION}
    except AnalysisError as e:
        return {"@analysis-error: " + str(e)[:160]}
    finally:
        shutil.rmtree(ev, ignore_errors=True)


def _robust_one(args):
    pid, repo, mode, base = args
    from . import benign
    tmp = tempfile.mkdtemp(prefix=f"sa-rob-{pid}-{mode}-")
    try:
        _copy_tree(repo, tmp)
        n = 0
        for d, _, fs in os.walk(os.path.join(tmp, SRC_REL)):
            for fn in fs:
                if fn.endswith(".py"):
                    pth = os.path.join(d, fn)
                    with open(pth, encoding="utf-8") as f:
                        src = f.read()
                    try:
                        out = benign.transform(src, mode)
                        compile(out, pth, "exec")
                    except Exception as e:
                        return (mode, "REWRITE-FAILED", f"{fn}: {type(e).__name__}: {e}"[:200])
                    with open(pth, "w", encoding="utf-8") as f:
                        f.write(out)
                    n += 1
        got = _verdict_keys(pid, tmp)
        if got == base:
            return (mode, "SAME", f"{n} files rewritten; identical set of {len(got)} violation key(s)")
        return (mode, "DIFFERENT", f"only on the rewritten tree: {sorted(got - base)[:3]}; only on the original: {sorted(base - got)[:3]}")
    except Exception:
        return (mode, "ERROR", traceback.format_exc(limit=2)[-300:])
    finally:
        shutil.rmtree(tmp, ignore_errors=True)


def robustness(pid: str, repo: str):
    """the rules of <pid> on fifteen behaviour-preserving rewrites of the tree under analysis (sa/benign.py): the set of reported
    violations must be the one reported on the tree itself.  Informational: a difference is fragility of the checker and is written
    to the evidence; it does not change the verdict about the repository."""
    from . import benign
    base = _verdict_keys(pid, repo)
    jobs = [(pid, repo, m, base) for m in benign.MODES]
    with cf.ProcessPoolExecutor(max_workers=min(15, len(jobs))) as ex:
        return list(ex.map(_robust_one, jobs))


def run_for_property(pid: str, repo: str, evidence_dir: str, quiet: bool = False) -> int:
    mod = importlib.import_module(f"sa.rules.{pid.lower()}")
    muts = getattr(mod, "MUTANTS", [])
    t0 = time.time()
    jobs = [(pid, repo, m[0], m[1], i, m[3]) for i, m in enumerate(muts)]
    jobs += [(pid, repo, name, rel, -1, expect) for name, rel, expect in seed_mutants(pid)]
    results = []
    with cf.ProcessPoolExecutor(max_workers=min(16, max(1, len(jobs)))) as ex:
        for r in ex.map(_run_one, jobs):
            results.append(r)
    # a kept seed whose patch no longer applies to the tree under analysis cannot be replayed: reported, not a failure of the checker
    skipped = [r for r in results if r[0].startswith("seed-") and r[1] == "MUTATION-FAILED"]
    results = [r for r in results if r not in skipped]
    detected = [r for r in results if r[1] == "DETECTED"]
    bad = [r for r in results if r[1] != "DETECTED"]
    # merge into the evidence file written by the live-tree run
    evp = os.path.join(evidence_dir, f"{pid}.json")
    try:
        with open(evp) as f:
            ev = json.load(f)
    except Exception:
        ev = None
    t1 = time.time()
    rob = robustness(pid, repo)
    if ev is not None:
        ev["coverage"]["checker_robustness"] = {
            "rewrites": len(rob), "same_verdict": len([r for r in rob if r[1] == "SAME"]),
            "different": [{"rewrite": r[0], "result": r[1], "detail": r[2]} for r in rob if r[1] != "SAME"],
            "note": "behaviour-preserving rewrites of a scratch copy of the tree under analysis (sa/benign.py: layout, local names, void statements, "
                    "guard clauses, polarity, operand order, temporaries ...); the rules must report the same violations as on the tree itself",
            "wall_s": round(time.time() - t1, 2),
        }
    if ev is not None:
        ev["coverage"]["checker_selftest"] = {
            "mutants": len(results), "detected": len(detected),
            "not_detected": [{"mutant": r[0], "result": r[1], "why": r[2]} for r in bad],
            "seeded_changes_replayed": len([r for r in results if r[0].startswith("seed-")]),
            "seeded_changes_not_replayable": [{"mutant": r[0], "why": r[2]} for r in skipped],
            "samples": [{"mutant": r[0], "reported_instance": r[2]} for r in detected[:8]],
            "note": "mutants are AST-located edits of a scratch copy of src/lian; only the checker is run on them",
            "wall_s": round(time.time() - t0, 2),
        }
        ev["wall_s"] = round(ev.get("wall_s", 0) + time.time() - t0, 3)
        with open(evp, "w") as f:
            json.dump(ev, f, indent=1, default=str)
    if not quiet:
        print(f"[{pid}] checker self-test: {len(detected)}/{len(results)} mutants detected in {time.time()-t0:.1f}s")
        for r in bad:
            print(f"  SELFTEST-{r[1]} {r[0]}: {r[2]}")
        for r in skipped:
            print(f"  SELFTEST-SKIPPED {r[0]}: {r[2]}")
        print(f"[{pid}] checker robustness: {len([r for r in rob if r[1] == 'SAME'])}/{len(rob)} behaviour-preserving rewrites give the same verdict")
        for r in rob:
            if r[1] != "SAME":
                print(f"  ROBUSTNESS-{r[1]} {r[0]}: {r[2]}")
    if bad:
        print(f"ANALYSIS-ERROR property={pid} checker self-test failed for {len(bad)} mutant(s); the checker, not the repository, is at fault")
        return 2
    return 0


if __name__ == "__main__":
    pid = sys.argv[1].upper()
    repo = sys.argv[2] if len(sys.argv) > 2 else "/repo"
    tmp_ev = tempfile.mkdtemp(prefix="sa-ev-")
    try:
        sys.exit(run_for_property(pid, repo, tmp_ev))
    finally:
        shutil.rmtree(tmp_ev, ignore_errors=True)
