"""Checker self-test (DESIGN 2.3): run each property's rules on AST-computed mutants
of a scratch copy of the analysed sources.  Each mutant still compiles; the rules must
report a VIOLATION whose key names the mutated construct, and be silent on the
unmutated copy.  This executes the *checker* on mutated source text -- it never runs lian.

A self-test failure is a defect of the checker, not of the repository: exit 2.
"""
from __future__ import annotations

import concurrent.futures as cf
import importlib
import json
import os
import shutil
import sys
import tempfile
import time
import traceback

from .model import SRC_REL, AnalysisError
from .report import KNOWN_FINDINGS, VERIF_DIR

EXTRA_DIRS = ["default_settings"]


def _copy_tree(repo: str, dst: str):
    shutil.copytree(os.path.join(repo, SRC_REL), os.path.join(dst, SRC_REL),
                    ignore=shutil.ignore_patterns("__pycache__", "*.pyc", "*.so"))
    for d in EXTRA_DIRS:
        s = os.path.join(repo, d)
        if os.path.isdir(s):
            shutil.copytree(s, os.path.join(dst, d))


def _run_one(args):
    pid, repo, name, rel, idx, expect = args
    from .check import run_property  # noqa
    from .report import Report
    from .model import RepoModel
    mod = importlib.import_module(f"sa.rules.{pid.lower()}")
    mut = mod.MUTANTS[idx][2]
    tmp = tempfile.mkdtemp(prefix=f"sa-mut-{pid}-")
    try:
        _copy_tree(repo, tmp)
        base = tmp if not rel.startswith("@") else tmp
        path = os.path.join(tmp, rel[1:]) if rel.startswith("@") else os.path.join(tmp, SRC_REL, rel)
        with open(path, "r", encoding="utf-8") as f:
            src = f.read()
        try:
            new = mut(src)
        except Exception as e:
            return (name, "MUTATION-FAILED", f"{type(e).__name__}: {e}")
        if new == src:
            return (name, "MUTATION-FAILED", "mutation left the source unchanged")
        with open(path, "w", encoding="utf-8") as f:
            f.write(new)
        ev = os.path.join(tmp, "evidence")
        try:
            model = RepoModel(tmp)
            rep = Report(pid, "quick", ev, tmp)
            mod.run(model, rep, "quick")
            try:
                rep.finish(KNOWN_FINDINGS, quiet=True, emit=False)
            except AnalysisError as e:
                # vacuity guard tripped: acceptable detection only if the mutant declares it
                if expect == "@BROKEN":
                    return (name, "DETECTED", f"analysis refuses to pass: {e}")
                return (name, "MISSED", f"ANALYSIS-ERROR instead of a violation: {e}")
        except AnalysisError as e:
            if expect == "@BROKEN":
                return (name, "DETECTED", f"analysis refuses to pass: {e}")
            return (name, "MISSED", f"ANALYSIS-ERROR instead of a violation: {e}")
        from .report import load_known, VIOLATION
        known = {k["key"] for k in load_known() if k.get("property") == pid and k.get("status") == "known"}
        viol = [i for i in rep.instances if i.status == VIOLATION and i.key not in known]
        hit = [i for i in viol if expect in i.key]
        if hit:
            return (name, "DETECTED", hit[0].key)
        if viol:
            return (name, "MISSED", "violation reported but not naming the mutated construct: " + viol[0].key)
        return (name, "MISSED", "no violation reported")
    except Exception as e:
        return (name, "ERROR", traceback.format_exc(limit=3))
    finally:
        shutil.rmtree(tmp, ignore_errors=True)


def run_for_property(pid: str, repo: str, evidence_dir: str, quiet: bool = False) -> int:
    mod = importlib.import_module(f"sa.rules.{pid.lower()}")
    muts = getattr(mod, "MUTANTS", [])
    t0 = time.time()
    jobs = [(pid, repo, m[0], m[1], i, m[3]) for i, m in enumerate(muts)]
    results = []
    with cf.ProcessPoolExecutor(max_workers=min(16, max(1, len(jobs)))) as ex:
        for r in ex.map(_run_one, jobs):
            results.append(r)
    detected = [r for r in results if r[1] == "DETECTED"]
    bad = [r for r in results if r[1] != "DETECTED"]
    # merge into the evidence file written by the live-tree run
    evp = os.path.join(evidence_dir, f"{pid}.json")
    try:
        with open(evp) as f:
            ev = json.load(f)
    except Exception:
        ev = None
    if ev is not None:
        ev["coverage"]["checker_selftest"] = {
            "mutants": len(results), "detected": len(detected),
            "not_detected": [{"mutant": r[0], "result": r[1], "why": r[2]} for r in bad],
            "samples": [{"mutant": r[0], "reported_instance": r[2]} for r in detected[:8]],
            "note": "mutants are AST-located edits of a scratch copy of src/lian; only the checker is run on them",
            "wall_s": round(time.time() - t0, 2),
        }
        ev["wall_s"] = round(ev.get("wall_s", 0) + time.time() - t0, 3)
        with open(evp, "w") as f:
            json.dump(ev, f, indent=1, default=str)
    if not quiet:
        print(f"[{pid}] checker self-test: {len(detected)}/{len(results)} mutants detected in {time.time()-t0:.1f}s")
        for r in bad:
            print(f"  SELFTEST-{r[1]} {r[0]}: {r[2]}")
    if bad:
        print(f"ANALYSIS-ERROR property={pid} checker self-test failed for {len(bad)} mutant(s); the checker, not the repository, is at fault")
        return 2
    return 0


if __name__ == "__main__":
    pid = sys.argv[1].upper()
    repo = sys.argv[2] if len(sys.argv) > 2 else "/repo"
    tmp_ev = tempfile.mkdtemp(prefix="sa-ev-")
    try:
        sys.exit(run_for_property(pid, repo, tmp_ev))
    finally:
        shutil.rmtree(tmp_ev, ignore_errors=True)
