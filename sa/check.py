"""CLI: /venv/bin/python -m sa.check <PROPERTY> [--tier quick|thorough] [--repo DIR] [--evidence-dir DIR]

exit 0  property's structural obligations hold on everything analysed (KNOWN-FINDING lines allowed)
exit 1  a VIOLATION line was printed
exit 2  ANALYSIS-ERROR: the analysis could not be carried out (anchor vanished, unsupported construct)
"""
from __future__ import annotations

import argparse
import importlib
import json
import os
import sys
import traceback

from .model import AnalysisError, RepoModel
from .report import KNOWN_FINDINGS, VERIF_DIR, Report


def run_property(pid: str, tier: str, repo: str, evidence_dir: str, known: str = KNOWN_FINDINGS, quiet: bool = False) -> int:
    mod = importlib.import_module(f"sa.rules.{pid.lower()}")
    model = RepoModel(repo)
    rep = Report(pid, tier, evidence_dir, repo)
    rep.analysed["modules_parsed"] = len(model.modules)
    mod.run(model, rep, tier)
    rc = rep.finish(known, quiet=quiet)
    if tier == "thorough" and rc == 0 and hasattr(mod, "MUTANTS") and os.environ.get("SA_NO_SELFTEST") != "1":
        from . import selftest
        rc = selftest.run_for_property(pid, repo, evidence_dir, quiet=quiet)
    return rc


def main(argv=None) -> int:
    ap = argparse.ArgumentParser()
    ap.add_argument("property")
    ap.add_argument("--tier", default=os.environ.get("VERIF_TIER", "quick"), choices=["quick", "thorough"])
    ap.add_argument("--repo", default=os.environ.get("VERIF_REPO", "/repo"))
    ap.add_argument("--evidence-dir", default=None)
    ap.add_argument("--known", default=KNOWN_FINDINGS)
    ap.add_argument("--replay", default=None, help="replay file written by an earlier VIOLATION")
    ap.add_argument("--quiet", action="store_true")
    a = ap.parse_args(argv)
    ev = a.evidence_dir or os.path.join(VERIF_DIR, "evidence")
    try:
        if a.replay:
            with open(a.replay) as f:
                rp = json.load(f)
            print(f"replaying {rp['key']}\n  rule: {rp['rule_text']}\n  was: {rp['file']}:{rp['line']}: {rp['what']}")
            rc = run_property(rp["property"], a.tier, a.repo, ev, a.known, quiet=True)
            return rc
        return run_property(a.property.upper(), a.tier, a.repo, ev, a.known, a.quiet)
    except AnalysisError as e:
        print(f"ANALYSIS-ERROR property={a.property} {e}")
        return 2
    except Exception as e:  # a crash of the checker is not a violation of the property
        traceback.print_exc()
        print(f"ANALYSIS-ERROR property={a.property} checker crashed: {type(e).__name__}: {e}")
        return 2


if __name__ == "__main__":
    sys.exit(main())
