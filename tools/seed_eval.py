#!/venv/bin/python
"""Evaluate a seeded breaking change against the checks (maintainer tool, not a registered check).
usage: tools/seed_eval.py <seed-id> <out-dir>     e.g. tools/seed_eval.py C16a /tmp/seed/C16-out
Applies the patch to /repo, runs the property's quick check and the demonstration, reverts, runs the
demonstration again on the clean tree, and files everything under /verif/seeded/<seed-id>/."""
import json, os, shutil, subprocess, sys, tempfile

sid, outdir = sys.argv[1], sys.argv[2]
pid = sid[:3]
patch = os.path.join(outdir, f"{sid}.patch.diff")
demo = os.path.join(outdir, f"{sid}.demo.py")
meta = os.path.join(outdir, f"{sid}.meta.json")
V = "/verif"
env = dict(os.environ, PYTHONPATH="/repo/src")

def sh(cmd, **kw):
    return subprocess.run(cmd, shell=True, capture_output=True, text=True, **kw)

assert sh("git -C /repo status --porcelain --untracked-files=no").stdout.strip() == "", "repo not clean"
r = sh(f"git -C /repo apply --check {patch}")
if r.returncode != 0:
    print("PATCH DOES NOT APPLY", r.stderr); sys.exit(2)
sh(f"git -C /repo apply {patch}")
try:
    comp = sh("/venv/bin/python -m compileall -q /repo/src/lian")
    ev = tempfile.mkdtemp()
    chk = sh(f"cd {V} && /venv/bin/python -m sa.check {pid} --evidence-dir {ev}") if os.path.exists(f"{V}/sa/rules/{pid.lower()}.py") else subprocess.CompletedProcess("", 0, "", "")
    viol = [l for l in chk.stdout.splitlines() if l.startswith("VIOLATION") or "[" + pid + ".R" in l]
    others = {}
    import glob
    for rp in sorted(glob.glob(f"{V}/sa/rules/c[0-9][0-9].py")):
        op = os.path.basename(rp)[:-3].upper()
        if op == pid:
            continue
        r2 = sh(f"cd {V} && /venv/bin/python -m sa.check {op} --evidence-dir {ev}")
        if r2.returncode == 1:
            others[op] = [l.strip()[:300] for l in r2.stdout.splitlines() if "[" + op + ".R" in l][:3]
    d_with = sh(f"/venv/bin/python {demo} /repo", env=env, timeout=900)
finally:
    sh("git -C /repo checkout -- .")
    sh("find /repo/src -name __pycache__ -type d -prune -exec rm -rf {} +")
d_without = sh(f"/venv/bin/python {demo} /repo", env=env, timeout=900)
res = {
    "seed": sid, "property": pid, "compiles": comp.returncode == 0,
    "demo_exit_with_change": d_with.returncode, "demo_exit_clean": d_without.returncode,
    "check_exit_with_change": chk.returncode,
    "check_report": [l.strip()[:400] for l in viol if not l.startswith("VIOLATION")][:6],
    "detected": chk.returncode == 1,
    "detected_by_other_checks": others,
}
print(json.dumps(res, indent=1))
print("demo(with) tail:", (d_with.stdout + d_with.stderr)[-400:])
if d_with.returncode != 0 and d_without.returncode == 0:
    dst = os.path.join(V, "seeded", sid)
    os.makedirs(dst, exist_ok=True)
    shutil.copy(patch, os.path.join(dst, "patch.diff"))
    shutil.copy(demo, os.path.join(dst, "demo.py"))
    m = json.load(open(meta)) if os.path.exists(meta) else {}
    m["confirmed_by_me"] = {"ran": [f"git -C /repo apply patch.diff; /venv/bin/python -m sa.check {pid}; PYTHONPATH=/repo/src /venv/bin/python demo.py /repo; git -C /repo checkout -- .; demo again"],
                            **res}
    json.dump(m, open(os.path.join(dst, "meta.json"), "w"), indent=1)
    print("KEPT ->", dst)
else:
    print("NOT KEPT: demo did not discriminate")
