# Table consumed by tools/gen_manifest.py (claim / na are defined there).
claim("C16", "typestate rule over DataModel (dirty flag / marker / refresher found by role) on per-method CFGs: must-pass-through and dominance queries",
      "Decides, for every method of DataModel on every syntactic path, that store mutations reach the dirty-marker, that every cache read is either eagerly reset by the marker or dominated by the refresher, that invalidation covers every cache field, and that GIRBlockViewer indexes are write-once. This is the structural protocol the property depends on; it does not compare query results with a scan.",
      "Not decided: value-level equality of query results for concrete operation sequences; pandas semantics; Row objects mutated after hand-out. Trusted: CPython ast, networkx dominators, sa engines (mutant self-test).",
      "DESIGN.md section 3, C16")
for _p in ["C01","C02","C03","C04","C06","C07","C08","C09","C10","C11","C12","C13","C14","C15","C17","C18","C19","C20"]:
    na(_p, "check designed in DESIGN.md section 3 but not built yet in this commit; no claim is made until its rule module exists")
na("C05", "lexical binding quantifies over analysed programs and each language's scoping semantics; no clause is visible in the shape of lian's code beyond declaration kinds (decided under C02.R3); see DESIGN.md section 5")
