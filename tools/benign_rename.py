#!/venv/bin/python
"""Robustness harness (maintainer tool, not a registered check): behaviour-preserving variants of /repo must stay silent.

usage: tools/benign_rename.py [reformat|suffix|scramble] [PID ...]
  reformat  every file replaced by ast.unparse(ast.parse(file))          (layout, comments, quoting change; AST identical)
  suffix    every function-local variable renamed  name -> name_q          (consistent alpha-renaming of locals)
  scramble  every function-local variable renamed  name -> l<6 hex digits> (no part of the old name survives)
  pass      a `pass` statement inserted after every statement of every function body (except after return/break/continue/raise)
  wrap      every function body wrapped in `if True:` ... (one more nesting level; statement order unchanged)
  invert    every `if c: A else: B` (B not an elif chain) rewritten as `if not c: B else: A`
  guard     every loop body that is one `if c:` without else rewritten as `if not c: continue` followed by the body
  yoda      operands of every == / != comparison swapped
  augassign every `x = x <op> e` rewritten as `x <op>= e`
  emptyctor every empty `[]` / `{}` literal on the right of an assignment rewritten as list() / dict()
  ternary   `if c: x = a else: x = b` rewritten as `x = a if c else b`
  hoist     `x = f(g(y), z)` rewritten as `_h = g(y); x = f(_h, z)`
  flatten   `if c: <body ending in return/continue/break/raise> else: B` rewritten as `if c: <body>` followed by B
  nest      the reverse: the statements after `if c: <... return>` moved into an else branch
  alias     every statement `self.a[.b].m(args)` / `x = self.a[.b].m(args)` rewritten as `_r = self.a[.b]` followed by `_r.m(args)`
Locals are names stored in the function body that are not parameters, not global/nonlocal, and not read by a nested function.
The variant is written to a scratch directory (removed afterwards), every check is run with --repo <scratch>, and every
VIOLATION / ANALYSIS-ERROR is printed: each one is a false alarm (or a broken anchor) of the checker, since the variant behaves
exactly like the original."""
import ast, concurrent.futures as cf, glob, hashlib, os, shutil, subprocess, sys, tempfile

V = "/verif"
mode = sys.argv[1] if len(sys.argv) > 1 else "scramble"
pids = [p.upper() for p in sys.argv[2:]] or sorted(os.path.basename(p)[:-3].upper() for p in glob.glob(f"{V}/sa/rules/c[0-9][0-9].py"))


def new_name(n: str) -> str:
    if mode == "suffix":
        return n + "_q"
    return "l" + hashlib.md5(n.encode()).hexdigest()[:6]


def rename_function(fn):
    params = {a.arg for a in fn.args.args + fn.args.kwonlyargs + fn.args.posonlyargs}
    if fn.args.vararg:
        params.add(fn.args.vararg.arg)
    if fn.args.kwarg:
        params.add(fn.args.kwarg.arg)
    stores, glob_, nested_names = set(), set(), set()
    for n in ast.walk(fn):
        if isinstance(n, (ast.Global, ast.Nonlocal)):
            glob_ |= set(n.names)
        if n is not fn and isinstance(n, (ast.FunctionDef, ast.AsyncFunctionDef, ast.Lambda, ast.ClassDef)):
            for m in ast.walk(n):
                if isinstance(m, ast.Name):
                    nested_names.add(m.id)

    def collect(node):
        for c in ast.iter_child_nodes(node):
            if isinstance(c, (ast.FunctionDef, ast.AsyncFunctionDef, ast.ClassDef, ast.Lambda)):
                continue
            if isinstance(c, ast.Name) and isinstance(c.ctx, ast.Store):
                stores.add(c.id)
            collect(c)
    collect(fn)
    loc = {s for s in stores if s not in params and s not in glob_ and s not in nested_names and not s.startswith("__")}

    def rn(node):
        for c in ast.iter_child_nodes(node):
            if isinstance(c, (ast.FunctionDef, ast.AsyncFunctionDef)):
                rename_function(c)
                continue
            if isinstance(c, (ast.ClassDef, ast.Lambda)):
                continue
            if isinstance(c, ast.Name) and c.id in loc:
                c.id = new_name(c.id)
            rn(c)
    rn(fn)


class AddPass(ast.NodeTransformer):
    def _pad(self, body):
        out = []
        for st in body:
            out.append(st)
            if not isinstance(st, (ast.Return, ast.Break, ast.Continue, ast.Raise, ast.FunctionDef, ast.AsyncFunctionDef, ast.ClassDef, ast.Import, ast.ImportFrom)):
                out.append(ast.Pass())
        return out

    def generic_visit(self, node):
        super().generic_visit(node)
        if self.depth > 0:
            for fld in ("body", "orelse", "finalbody"):
                b = getattr(node, fld, None)
                if isinstance(b, list) and b and isinstance(b[0], ast.stmt):
                    setattr(node, fld, self._pad(b))
        return node
    depth = 0

    def visit_FunctionDef(self, node):
        self.depth += 1
        self.generic_visit(node)
        self.depth -= 1
        return node
    visit_AsyncFunctionDef = visit_FunctionDef


class Invert(ast.NodeTransformer):
    def visit_If(self, node):
        self.generic_visit(node)
        if node.orelse and not (len(node.orelse) == 1 and isinstance(node.orelse[0], ast.If)):
            t = node.test
            nt = t.operand if isinstance(t, ast.UnaryOp) and isinstance(t.op, ast.Not) else ast.UnaryOp(op=ast.Not(), operand=t)
            return ast.If(test=nt, body=node.orelse, orelse=node.body)
        return node


class Guard(ast.NodeTransformer):
    def _loop(self, node):
        self.generic_visit(node)
        if len(node.body) == 1 and isinstance(node.body[0], ast.If) and not node.body[0].orelse:
            i = node.body[0]
            t = i.test
            nt = t.operand if isinstance(t, ast.UnaryOp) and isinstance(t.op, ast.Not) else ast.UnaryOp(op=ast.Not(), operand=t)
            node.body = [ast.If(test=nt, body=[ast.Continue()], orelse=[])] + i.body
        return node
    visit_For = _loop
    visit_While = _loop


class Yoda(ast.NodeTransformer):
    def visit_Compare(self, node):
        self.generic_visit(node)
        if len(node.ops) == 1 and isinstance(node.ops[0], (ast.Eq, ast.NotEq)):
            return ast.Compare(left=node.comparators[0], ops=node.ops, comparators=[node.left])
        return node


class Aug(ast.NodeTransformer):
    def visit_Assign(self, node):
        self.generic_visit(node)
        if len(node.targets) == 1 and isinstance(node.targets[0], ast.Name) and isinstance(node.value, ast.BinOp) \
                and isinstance(node.value.left, ast.Name) and node.value.left.id == node.targets[0].id \
                and isinstance(node.value.op, (ast.Add, ast.Sub, ast.BitOr, ast.BitAnd, ast.Mult)):
            return ast.AugAssign(target=ast.Name(id=node.targets[0].id, ctx=ast.Store()), op=node.value.op, value=node.value.right)
        return node


class EmptyCtor(ast.NodeTransformer):
    def visit_Assign(self, node):
        self.generic_visit(node)
        v = node.value
        if isinstance(v, ast.List) and not v.elts:
            node.value = ast.Call(func=ast.Name(id="list", ctx=ast.Load()), args=[], keywords=[])
        elif isinstance(v, ast.Dict) and not v.keys:
            node.value = ast.Call(func=ast.Name(id="dict", ctx=ast.Load()), args=[], keywords=[])
        return node


class Alias(ast.NodeTransformer):
    """receiver of a method call bound to a temporary first (evaluation order is unchanged: the receiver is evaluated before the arguments)"""
    def _split(self, st, call):
        f = call.func
        if isinstance(f, ast.Attribute) and isinstance(f.value, ast.Attribute):
            root = f.value
            while isinstance(root, ast.Attribute):
                root = root.value
            if isinstance(root, ast.Name) and root.id == "self":
                tmp = ast.Assign(targets=[ast.Name(id="_r", ctx=ast.Store())], value=f.value)
                call.func = ast.Attribute(value=ast.Name(id="_r", ctx=ast.Load()), attr=f.attr, ctx=ast.Load())
                return [tmp, st]
        return st

    def visit_Expr(self, node):
        if isinstance(node.value, ast.Call):
            return self._split(node, node.value)
        return node

    def visit_Assign(self, node):
        if isinstance(node.value, ast.Call) and len(node.targets) == 1:
            return self._split(node, node.value)
        return node


class Flatten(ast.NodeTransformer):
    """`if c: <body that always leaves> else: B`  ->  `if c: <body>` followed by B (the else branch is lifted out)"""
    def _leaves(self, body):
        return bool(body) and isinstance(body[-1], (ast.Return, ast.Continue, ast.Break, ast.Raise))

    def _block(self, stmts):
        out = []
        for st in stmts:
            if isinstance(st, ast.If) and st.orelse and self._leaves(st.body):
                out.append(ast.If(test=st.test, body=st.body, orelse=[]))
                out.extend(self._block(st.orelse))
            else:
                out.append(st)
        return out

    def generic_visit(self, node):
        super().generic_visit(node)
        for fld in ("body", "orelse", "finalbody"):
            b = getattr(node, fld, None)
            if isinstance(b, list) and b and isinstance(b[0], ast.stmt):
                setattr(node, fld, self._block(b))
        return node


class Nest(ast.NodeTransformer):
    """the reverse: `if c: <body that always leaves>` followed by the rest of the block  ->  `if c: <body> else: <rest>`"""
    def _leaves(self, body):
        return bool(body) and isinstance(body[-1], (ast.Return, ast.Continue, ast.Break, ast.Raise))

    def _block(self, stmts):
        for i, st in enumerate(stmts):
            if isinstance(st, ast.If) and not st.orelse and self._leaves(st.body) and i + 1 < len(stmts) \
                    and not any(isinstance(x, (ast.FunctionDef, ast.ClassDef, ast.Global, ast.Nonlocal)) for x in stmts[i + 1:]):
                return stmts[:i] + [ast.If(test=st.test, body=st.body, orelse=self._block(stmts[i + 1:]))]
        return stmts

    def generic_visit(self, node):
        super().generic_visit(node)
        for fld in ("body", "orelse", "finalbody"):
            b = getattr(node, fld, None)
            if isinstance(b, list) and b and isinstance(b[0], ast.stmt):
                setattr(node, fld, self._block(b))
        return node


class Ternary(ast.NodeTransformer):
    """`if c: x = a else: x = b` (same plain target, one assignment per arm)  ->  `x = a if c else b`"""
    def visit_If(self, node):
        self.generic_visit(node)
        if len(node.body) == 1 and len(node.orelse) == 1 and isinstance(node.body[0], ast.Assign) and isinstance(node.orelse[0], ast.Assign):
            a, b = node.body[0], node.orelse[0]
            if len(a.targets) == 1 and len(b.targets) == 1 and isinstance(a.targets[0], ast.Name) and isinstance(b.targets[0], ast.Name) \
                    and a.targets[0].id == b.targets[0].id:
                return ast.Assign(targets=[ast.Name(id=a.targets[0].id, ctx=ast.Store())], value=ast.IfExp(test=node.test, body=a.value, orelse=b.value))
        return node


class Hoist(ast.NodeTransformer):
    """first positional argument that is itself a call is computed into a temporary first: `x = f(g(y), z)` -> `_h = g(y); x = f(_h, z)`
    (only when the callee expression is a plain name or an attribute chain of names, whose evaluation has no effect)"""
    n = 0

    def _ok_func(self, f):
        while isinstance(f, ast.Attribute):
            f = f.value
        return isinstance(f, ast.Name)

    def _split(self, st, call):
        if call.args and isinstance(call.args[0], ast.Call) and self._ok_func(call.func) and not any(isinstance(a, ast.Starred) for a in call.args) \
                and not any(isinstance(x, (ast.Yield, ast.YieldFrom, ast.Await, ast.NamedExpr, ast.Lambda, ast.GeneratorExp, ast.ListComp)) for x in ast.walk(call)):
            Hoist.n += 1
            nm = f"_h{Hoist.n}"                      # a fresh name per extraction, as a developer would choose
            tmp = ast.Assign(targets=[ast.Name(id=nm, ctx=ast.Store())], value=call.args[0])
            call.args[0] = ast.Name(id=nm, ctx=ast.Load())
            return [tmp, st]
        return st

    def visit_Expr(self, node):
        if isinstance(node.value, ast.Call):
            return self._split(node, node.value)
        return node

    def visit_Assign(self, node):
        if isinstance(node.value, ast.Call) and len(node.targets) == 1 and isinstance(node.targets[0], ast.Name):
            return self._split(node, node.value)
        return node


TRANSFORMERS = {"ternary": Ternary, "hoist": Hoist, "flatten": Flatten, "nest": Nest, "alias": Alias, "invert": Invert, "guard": Guard, "yoda": Yoda, "augassign": Aug, "emptyctor": EmptyCtor}


def transform(src: str) -> str:
    t = ast.parse(src)
    if mode in TRANSFORMERS:
        t = TRANSFORMERS[mode]().visit(t)
        ast.fix_missing_locations(t)
        return ast.unparse(t) + "\n"
    if mode == "pass":
        t = AddPass().visit(t)
        ast.fix_missing_locations(t)
        return ast.unparse(t) + "\n"
    if mode == "wrap":
        for node in ast.walk(t):
            if isinstance(node, (ast.FunctionDef, ast.AsyncFunctionDef)):
                doc = node.body[:1] if node.body and isinstance(node.body[0], ast.Expr) and isinstance(node.body[0].value, ast.Constant) and isinstance(node.body[0].value.value, str) else []
                rest = node.body[len(doc):]
                decls = [s_ for s_ in rest if isinstance(s_, (ast.Global, ast.Nonlocal))]
                rest = [s_ for s_ in rest if not isinstance(s_, (ast.Global, ast.Nonlocal))]
                if rest:
                    node.body = doc + decls + [ast.If(test=ast.Constant(True), body=rest, orelse=[])]
        ast.fix_missing_locations(t)
        return ast.unparse(t) + "\n"
    if mode != "reformat":
        for node in t.body:
            if isinstance(node, (ast.FunctionDef, ast.AsyncFunctionDef)):
                rename_function(node)
            if isinstance(node, ast.ClassDef):
                for m in node.body:
                    if isinstance(m, (ast.FunctionDef, ast.AsyncFunctionDef)):
                        rename_function(m)
    return ast.unparse(t) + "\n"


SRC = os.environ.get("BENIGN_SRC", "/repo")      # a clean snapshot can be used while /repo is being patched for a seed evaluation
tmp = tempfile.mkdtemp(prefix="benign-")
try:
    os.makedirs(f"{tmp}/src")
    shutil.copytree(f"{SRC}/src/lian", f"{tmp}/src/lian", ignore=shutil.ignore_patterns("__pycache__", "*.so"))
    shutil.copytree(f"{SRC}/default_settings", f"{tmp}/default_settings")
    n = 0
    for d, _, fs in os.walk(f"{tmp}/src/lian"):
        for f in fs:
            if f.endswith(".py"):
                p = os.path.join(d, f)
                out = transform(open(p, encoding="utf-8").read())
                compile(out, p, "exec")
                open(p, "w", encoding="utf-8").write(out)
                n += 1
    print(f"mode={mode}: {n} files transformed in {tmp}")

    def run(pid):
        c = subprocess.run(f"cd {V} && /venv/bin/python -m sa.check {pid} --repo {tmp} --evidence-dir {tmp}/ev-{pid}", shell=True, capture_output=True, text=True)
        return pid, c
    bad = 0
    with cf.ThreadPoolExecutor(max_workers=8) as ex:
        for pid, c in ex.map(run, pids):
            lines = c.stdout.splitlines()
            errs = [l for l in lines if l.startswith("ANALYSIS-ERROR")]
            viol = [lines[i - 1].strip() for i, l in enumerate(lines) if l.startswith("VIOLATION") and i > 0]
            print(f"{pid} rc={c.returncode} violations={len(viol)} errors={len(errs)}")
            for l in errs + viol:
                print("    " + l[:260])
            bad += len(errs) + len(viol) + (1 if c.returncode not in (0,) and not errs and not viol else 0)
    print("TOTAL false alarms / broken anchors:", bad)
    sys.exit(1 if bad else 0)
finally:
    shutil.rmtree(tmp, ignore_errors=True)
