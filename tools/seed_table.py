#!/venv/bin/python
"""Render /verif/seeded/MATRIX.json + meta.json as the markdown table of DESIGN.md section 8.5 (maintainer tool)."""
import json, os, re
V = "/verif/seeded"
mx = json.load(open(f"{V}/MATRIX.json"))
rows = ["| seed | change (one line) | reported by |", "|---|---|---|"]
for sid in sorted(mx):
    m = json.load(open(f"{V}/{sid}/meta.json"))
    summ = " ".join(m.get("summary", "").split())
    summ = re.sub(r"\|", "/", summ)
    if len(summ) > 150:
        summ = summ[:147] + "..."
    c = m.get("confirmed_by_me", {})
    first = "own check" if c.get("detected") else ("other: " + ",".join(c.get("detected_by_other_checks", {})) if c.get("detected_by_other_checks") else "missed")
    det = mx[sid].get("detected_by", {})
    now = []
    for pid, keys in det.items():
        rules = sorted({k.split("::")[0] for k in keys}) or [pid]
        now.append(", ".join(rules))
    rows.append(f"| {sid} | {summ} | {'; '.join(now) if now else ('(superseded by a fix: no longer breaks the property)' if m.get('superseded') else '**MISSED**')} |")
print("\n".join(rows))
