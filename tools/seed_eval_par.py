#!/venv/bin/python
"""Evaluate several delivered seeds in parallel, each in its own scratch worktree of /repo (maintainer tool, not a check).

usage: tools/seed_eval_par.py <out-dir-suffix> <seed-id> [<seed-id> ...]      e.g. tools/seed_eval_par.py out4 C01f C01g
For seed Cxxy the files are expected in /tmp/seed/Cxx-<suffix>/Cxxy.{patch.diff,demo.py,meta.json}.
Per seed: git worktree of /repo's HEAD under /tmp/se/<id>; demo on the clean worktree (must exit 0); patch applied;
byte-compile; demo again (must exit non-zero); every quick check with --repo <worktree>; worktree removed.
/repo's own working tree is never touched.  A seed that discriminates is filed under /verif/seeded/<id>/."""
import concurrent.futures as cf
import glob, json, os, shutil, subprocess, sys

V = "/verif"
PIDS = sorted(os.path.basename(p)[:-3].upper() for p in glob.glob(f"{V}/sa/rules/c[0-9][0-9].py"))
suffix, sids = sys.argv[1], sys.argv[2:]


def sh(cmd, **kw):
    return subprocess.run(cmd, shell=True, capture_output=True, text=True, **kw)


def one(sid):
    pid = sid[:3]
    out = f"/tmp/seed/{pid}-{suffix}"
    patch, demo, meta = f"{out}/{sid}.patch.diff", f"{out}/{sid}.demo.py", f"{out}/{sid}.meta.json"
    if not (os.path.exists(patch) and os.path.exists(demo)):
        return sid, {"error": "files missing"}
    wt = f"/tmp/se/{sid}"
    sh(f"git -C /repo worktree remove --force {wt}")
    shutil.rmtree(wt, ignore_errors=True)
    os.makedirs("/tmp/se", exist_ok=True)
    r = sh(f"git -C /repo worktree add -q --detach {wt} HEAD")
    if r.returncode != 0:
        return sid, {"error": "worktree: " + r.stderr[-200:]}
    try:
        env = dict(os.environ, PYTHONPATH=f"{wt}/src", TMPDIR=f"/tmp/se/{sid}-tmp")
        os.makedirs(env["TMPDIR"], exist_ok=True)
        try:
            d0 = sh(f"/venv/bin/python {demo} {wt}", env=env, timeout=1500)
        except subprocess.TimeoutExpired:
            return sid, {"error": "demo timeout on the clean tree"}
        a = sh(f"git -C {wt} apply {patch}")
        if a.returncode != 0:
            return sid, {"error": "patch does not apply: " + a.stderr[-200:]}
        comp = sh(f"/venv/bin/python -m compileall -q {wt}/src/lian")
        sh(f"find {wt}/src -name __pycache__ -type d -prune -exec rm -rf {{}} +")
        try:
            d1 = sh(f"/venv/bin/python {demo} {wt}", env=env, timeout=1500)
            d1rc, d1tail = d1.returncode, (d1.stdout + d1.stderr)[-500:]
        except subprocess.TimeoutExpired:
            d1rc, d1tail = 124, "timeout (counted as non-zero)"
        ev = f"/tmp/se/{sid}-ev"
        os.makedirs(ev, exist_ok=True)
        det = {}
        for p in PIDS:
            c = sh(f"cd {V} && /venv/bin/python -m sa.check {p} --repo {wt} --evidence-dir {ev}")
            if c.returncode == 1:
                try:
                    keys = json.load(open(f"{ev}/{p}.json"))["coverage"]["new_violations"][:3]
                except Exception:
                    keys = []
                det[p] = keys
            elif c.returncode != 0:
                det[p] = ["ANALYSIS-ERROR: " + (c.stdout + c.stderr).strip().splitlines()[-1][:200]]
        res = {"seed": sid, "property": pid, "compiles": comp.returncode == 0, "demo_exit_clean": d0.returncode, "demo_exit_with_change": d1rc,
               "detected": pid in det and not det[pid][0:1] == [] and not str(det[pid][:1]).startswith("['ANALYSIS"),
               "detected_by": det, "demo_tail_with_change": d1tail}
        if d0.returncode == 0 and d1rc != 0 and comp.returncode == 0:
            dst = f"{V}/seeded/{sid}"
            os.makedirs(dst, exist_ok=True)
            shutil.copy(patch, f"{dst}/patch.diff")
            shutil.copy(demo, f"{dst}/demo.py")
            m = json.load(open(meta)) if os.path.exists(meta) else {}
            m["confirmed_by_me"] = {"ran": ["scratch worktree of /repo HEAD: demo (exit 0); git apply patch.diff; compileall; demo (exit non-zero); "
                                            "every quick check with --repo <worktree>"], **res}
            json.dump(m, open(f"{dst}/meta.json", "w"), indent=1)
            res["kept"] = True
        else:
            res["kept"] = False
        return sid, res
    finally:
        sh(f"git -C /repo worktree remove --force {wt}")
        shutil.rmtree(wt, ignore_errors=True)
        shutil.rmtree(f"/tmp/se/{sid}-tmp", ignore_errors=True)
        shutil.rmtree(f"/tmp/se/{sid}-ev", ignore_errors=True)


with cf.ThreadPoolExecutor(max_workers=5) as ex:
    for sid, r in ex.map(one, sids):
        own = sid[:3]
        d = r.get("detected_by", {})
        mark = "own" if own in d else ("other:" + ",".join(d) if d else "MISSED")
        print(f"{sid} kept={r.get('kept')} clean={r.get('demo_exit_clean')} with={r.get('demo_exit_with_change')} {mark} {r.get('error', '')}")
        for p, ks in d.items():
            for k in ks[:2]:
                print(f"       {p}: {k[:220]}")
        sys.stdout.flush()
sh("git -C /repo worktree prune")
