#!/venv/bin/python
"""Run every check against every kept seeded change (maintainer tool, not a registered check).

usage: tools/seed_matrix.py [seed-id ...]
For each /verif/seeded/<id>/patch.diff: copy /repo's src/lian and default_settings to a scratch
directory outside /repo and /verif, apply the patch there (patch -p1), run all quick checks with
--repo <scratch>, remove the scratch copy.  Writes /verif/seeded/MATRIX.json and prints a table:
which checks report a VIOLATION for which change (and with which rule instances).
/repo itself is never modified."""
import concurrent.futures as cf
import glob, json, os, shutil, subprocess, sys, tempfile

V = "/verif"
SEED_DIR = os.environ.get("SEED_DIR", f"{V}/seeded")     # patches of not yet confirmed seeds can be tried from a scratch directory
PIDS = sorted(os.path.basename(p)[:-3].upper() for p in glob.glob(f"{V}/sa/rules/c[0-9][0-9].py"))


def sh(cmd, **kw):
    return subprocess.run(cmd, shell=True, capture_output=True, text=True, **kw)


def one(sid):
    tmp = tempfile.mkdtemp(prefix=f"seedmx-{sid}-")
    try:
        os.makedirs(f"{tmp}/src")
        shutil.copytree(os.environ.get("SEED_SRC", "/repo") + "/src/lian", f"{tmp}/src/lian", ignore=shutil.ignore_patterns("__pycache__", "*.so"))
        if os.path.isdir(os.environ.get("SEED_SRC", "/repo") + "/default_settings"):
            shutil.copytree(os.environ.get("SEED_SRC", "/repo") + "/default_settings", f"{tmp}/default_settings")
        r = sh(f"patch -p1 -s -d {tmp} < {SEED_DIR}/{sid}/patch.diff")
        if r.returncode != 0:
            return sid, {"error": "patch does not apply: " + (r.stdout + r.stderr)[-300:]}
        ev = f"{tmp}/ev"
        os.makedirs(ev)
        out = {}
        for pid in PIDS:
            c = sh(f"cd {V} && /venv/bin/python -m sa.check {pid} --repo {tmp} --evidence-dir {ev}")
            if c.returncode == 1:
                keys = []
                try:
                    e = json.load(open(f"{ev}/{pid}.json"))
                    keys = [k[:220] for k in e["coverage"]["new_violations"]]
                except Exception:
                    pass
                if not keys:
                    keys = [l.strip()[:240] for l in c.stdout.splitlines() if f"[{pid}.R" in l and "VIOLATION" in l][:4]
                out[pid] = keys[:4]
            elif c.returncode != 0:
                out[pid] = [f"ANALYSIS-ERROR rc={c.returncode}: " + (c.stdout + c.stderr).strip().splitlines()[-1][:200]]
        return sid, {"detected_by": out}
    finally:
        shutil.rmtree(tmp, ignore_errors=True)


def main():
    sids = sys.argv[1:] or sorted(d for d in os.listdir(SEED_DIR) if os.path.exists(f"{SEED_DIR}/{d}/patch.diff"))
    res = {}
    with cf.ThreadPoolExecutor(max_workers=8) as ex:
        for sid, r in ex.map(one, sids):
            res[sid] = r
            own = sid[:3]
            d = r.get("detected_by", {})
            mark = "own" if own in d else ("other" if d else "MISSED")
            print(f"{sid:6s} {mark:7s} {', '.join(d) if d else r.get('error', '')}")
            for pid, keys in d.items():
                for k in keys[:2]:
                    print(f"         {pid}: {k}")
    path = f"{V}/seeded/MATRIX.json"
    if SEED_DIR != f"{V}/seeded":
        path = os.devnull
    old = {}
    if sys.argv[1:] and os.path.exists(path) and path != os.devnull:
        old = json.load(open(path))
    old.update(res)
    json.dump(dict(sorted(old.items())), open(path, "w"), indent=1)
    def superseded(sid):
        try:
            return bool(json.load(open(f"{SEED_DIR}/{sid}/meta.json")).get("superseded"))
        except Exception:
            return False
    missed = [s for s, r in res.items() if not r.get("detected_by") and not superseded(s)]
    print(f"{len(res) - len(missed)}/{len(res)} detected; missed: {missed}")


if __name__ == "__main__":
    main()
