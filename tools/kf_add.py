#!/venv/bin/python
"""Maintainer tool (never run by a check): list the current un-listed violations of a property, and with
--add record them in known_findings.json after they have been triaged by hand.
usage: tools/kf_add.py C02 [--add] [--filter substring] [--note text]"""
import json, os, sys
sys.path.insert(0, os.path.dirname(os.path.dirname(os.path.abspath(__file__))))
from sa.model import RepoModel
from sa.report import Report, KNOWN_FINDINGS, load_known, VIOLATION
import importlib, tempfile

pid = sys.argv[1].upper()
add = "--add" in sys.argv
flt = sys.argv[sys.argv.index("--filter") + 1] if "--filter" in sys.argv else ""
note = sys.argv[sys.argv.index("--note") + 1] if "--note" in sys.argv else ""
mod = importlib.import_module(f"sa.rules.{pid.lower()}")
rep = Report(pid, "quick", tempfile.mkdtemp(), "/repo")
mod.run(RepoModel("/repo"), rep, "thorough" if "--thorough" in sys.argv else "quick")
known = {k["key"] for k in load_known() if k["property"] == pid}
new = [i for i in rep.instances if i.status == VIOLATION and i.key not in known and flt in i.key]
seen = set()
d = json.load(open(KNOWN_FINDINGS))
for i in new:
    if i.key in seen:
        continue
    seen.add(i.key)
    print(i.key, "--", i.what[:200])
    if add:
        d["findings"].append({"property": pid, "status": "known", "key": i.key,
                              "what": (i.what + (" | " + note if note else ""))})
if add:
    json.dump(d, open(KNOWN_FINDINGS, "w"), indent=1)
    print(f"added {len(seen)}")
