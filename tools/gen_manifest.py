#!/venv/bin/python
"""Regenerate /verif/MANIFEST.json from the table below and validate it against the schema."""
import json
import os
import subprocess
import sys

HERE = os.path.dirname(os.path.dirname(os.path.abspath(__file__)))
PY = "/venv/bin/python"

# property -> (technique, level text, level note / not decided, design ref)
CLAIMED = {}
NOT_APPLICABLE = {}


def claim(pid, technique, text, note, ref):
    CLAIMED[pid] = (technique, text, note, ref)


def na(pid, reason):
    NOT_APPLICABLE[pid] = reason


exec(open(os.path.join(HERE, "tools", "manifest_table.py")).read())


def main():
    repo_fix_commits = []
    checks = []
    for pid in sorted(CLAIMED):
        technique, text, note, ref = CLAIMED[pid]
        text = text + (" " + ADDITIONS[pid] if pid in globals().get("ADDITIONS", {}) else "")
        note = note + globals().get("ROBUST", "")
        checks.append({
            "property_id": pid,
            "quick_cmd": f"{PY} -m sa.check {pid} --tier quick",
            "thorough_cmd": f"{PY} -m sa.check {pid} --tier thorough",
            "evidence_file": f"/verif/evidence/{pid}.json",
            "replay_cmd_template": f"{PY} -m sa.check {pid} --replay {{path}}",
            "engine": "sa",
            "level_claimed": {"category": "other", "text": text, "design_ref": ref},
            "level_note": note,
            "technique": technique,
        })
    props = [json.loads(l)["id"] for l in open(os.path.join(HERE, "properties.jsonl")) if l.strip()]
    missing = [p for p in props if p not in CLAIMED and p not in NOT_APPLICABLE]
    if missing:
        print("properties neither claimed nor not_applicable:", missing)
        return 1
    manifest = {
        "version": 1,
        "setup_cmd": f"{PY} -c \"import ast, networkx, yaml; print('sa: nothing to build, stdlib ast + networkx + yaml present')\"",
        "hooks": {
            "guard": "YANG_GUANGLIANG_LIAN_VERIF",
            "enable": "none needed: every check parses /repo's current source with ast; no hook or instrumentation exists in /repo",
            "baseline_off_cmd": "cd /repo && /venv/bin/python -m pytest -ra -q -p no:cacheprovider --timeout=900 --continue-on-collection-errors",
            "source_commits": [],
            "add_only": True,
        },
        "engines": [{
            "name": "sa", "path": "/verif/sa",
            "serves_properties": sorted(CLAIMED),
            "kind_free_text": "repository-specific static analysis on Python ast: repo model + callee resolution (sa/model.py), "
                              "per-function CFG with dominators and must-pass-through queries (sa/cfg.py), rule modules "
                              "(sa/rules/cNN.py), AST-mutant self-test of the checker (sa/selftest.py)",
        }],
        "checks": checks,
        "notes": "All checks are static: they parse /repo/src/lian (and default_settings/*.yaml) on every run and never import or run "
                 "lian. exit 0 = obligations hold (KNOWN-FINDING lines possible), exit 1 = VIOLATION, exit 2 = ANALYSIS-ERROR "
                 "(anchor vanished / checker self-test failed). Known findings: /verif/known_findings.json. Thorough tier = same rules "
                 "plus the mutant battery that tests the checker on scratch copies.",
        "not_applicable": [{"property_id": p, "reason": NOT_APPLICABLE[p]} for p in sorted(NOT_APPLICABLE)],
    }
    out = os.path.join(HERE, "MANIFEST.json")
    with open(out, "w") as f:
        json.dump(manifest, f, indent=1)
    try:
        import jsonschema  # only in the tooling venv; validation is best effort here
        jsonschema.validate(manifest, json.load(open("/root/.vp/MANIFEST.schema.json")))
        print("MANIFEST.json validates")
    except ImportError:
        r = subprocess.run(["python3-vt", "-c",
                            "import json,jsonschema;jsonschema.validate(json.load(open('%s')),json.load(open('/root/.vp/MANIFEST.schema.json')));print('MANIFEST.json validates')" % out])
        return r.returncode
    return 0


if __name__ == "__main__":
    sys.exit(main())
