#!/venv/bin/python
"""Run every check registered in MANIFEST.json (quick or thorough) and summarise; validates evidence."""
import json, subprocess, sys, time, os
tier = sys.argv[1] if len(sys.argv) > 1 else "quick"
m = json.load(open("/verif/MANIFEST.json"))
bad = 0
for c in m["checks"]:
    cmd = c["quick_cmd"] if tier == "quick" else c.get("thorough_cmd", c["quick_cmd"])
    t = time.time()
    r = subprocess.run(cmd, shell=True, cwd="/verif", capture_output=True, text=True, env=dict(os.environ, VERIF_TIER=tier))
    viol = [l for l in r.stdout.splitlines() if l.startswith("VIOLATION")]
    kf = len([l for l in r.stdout.splitlines() if l.startswith("KNOWN-FINDING")])
    v = subprocess.run(["python3-vt", "-c", f"import json,jsonschema;jsonschema.validate(json.load(open('{c['evidence_file']}')),json.load(open('/root/.vp/EVIDENCE.schema.json')))"], capture_output=True, text=True)
    ok = r.returncode == 0 and not viol and v.returncode == 0
    bad += 0 if ok else 1
    print(f"{c['property_id']} rc={r.returncode} viol={len(viol)} known={kf} evidence={'ok' if v.returncode==0 else 'INVALID'} {time.time()-t:.1f}s" + ("" if ok else "  <<<<<"))
    if not ok:
        print(r.stdout[-1500:], r.stderr[-500:])
sys.exit(1 if bad else 0)
