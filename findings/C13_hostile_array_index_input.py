def f(x):
    a = []
    a[30000000] = x
    b = [1, 2]
    b[3] = x
    return a
f(1)
