#!/usr/bin/env python3
"""
Demonstration for the known findings C06.R6 (maintainer aid; NOT a registered check, never run by one).

Usage: PYTHONPATH=/repo/src /venv/bin/python findings/C06_loop_definitions_probe.py /repo

Runs lian in-process (phase 2 and phase 3) on three small Python functions with a loop and prints, per use, the
source lines of the definitions linked to it.  On the pinned tree `y = x` after `for i in b: x = 2` (function h, line 5)
is linked to the definition on line 2 only; the definition on line 4 (loop body) is missing.  Same for the while loop
in w (line 23: only line 19, line 21 missing) and for the loop header's own condition.
(The in-process harness is the one of seeded/C06a/demo.py.)
"""
import sys, os, json, subprocess, tempfile, shutil

ROOT = os.path.abspath(sys.argv[1] if len(sys.argv) > 1 and not sys.argv[1].startswith("--") else "/repo")

PROGRAM = '''\
def h(b):
    x = 1
    for i in b:
        x = 2
    y = x
    return y

def k(b, c):
    x = 1
    for i in b:
        if c:
            x = 5
            continue
        z = 0
    y = x
    return y

def w(b):
    x = 1
    while b:
        x = 3
        b = b - 1
    y = x
    return y

h(p)
k(p, q)
w(p)
'''

# (function, use line, variable) -> lines of the definitions that reach the use.
# f is loop free: the table is the classical reaching-definitions solution.
# g: line 19 is reached by x@11 (loop taken zero times, or one iteration without
#    the break) and by x@15 (first iteration takes the break).
EXPECTED = {
    ("f", 3, "a"): {1},
    ("f", 5, "x"): {4},
    ("f", 7, "x"): {2, 5},
    ("f", 8, "x"): {7},
    ("g", 13, "b"): {10},
    ("g", 14, "a"): {10},
    ("g", 19, "x"): {11, 15},
    ("g", 20, "x"): {19},
}


def child(mode):
    """Run lian in-process on PROGRAM and print the def->use pairs as JSON."""
    import builtins, io, contextlib, warnings
    warnings.filterwarnings("ignore")
    builtins.profile = lambda f: f
    sys.path.insert(0, ROOT + "/src")
    import lian
    assert os.path.abspath(lian.__file__).startswith(ROOT), "wrong lian imported: " + lian.__file__
    from lian.main import Lian
    from lian.core.prelim_semantics import P2PrelimSemanticAnalysis
    from lian.common_structs import SymbolDefNode, Symbol

    here = os.path.dirname(os.path.abspath(__file__))
    work = tempfile.mkdtemp(prefix="c06a_", dir=here if os.access(here, os.W_OK) else None)
    try:
        src_dir = os.path.join(work, "in")
        os.makedirs(src_dir)
        with open(os.path.join(src_dir, "t.py"), "w") as f:
            f.write(PROGRAM)

        wanted_phase = 2 if mode == "p2" else 3
        frames = []
        orig = P2PrelimSemanticAnalysis.generate_and_save_analysis_summary

        def hook(self, frame, summary):
            # called once per analysed method, when its fix-point loop is finished
            if self.analysis_phase_id == wanted_phase:
                frames.append(frame)
            return orig(self, frame, summary)

        P2PrelimSemanticAnalysis.generate_and_save_analysis_summary = hook
        argv = ["main.py", "semantic", "-l", "python", "-f", "-q", "--nomock"]
        if mode == "p2":
            argv.append("--enable-p2")
        argv += ["-w", os.path.join(work, "ws"), src_dir]
        sys.argv = argv
        with contextlib.redirect_stdout(io.StringIO()):
            app = Lian().run()

        pairs = []
        for frame in frames:
            name = app.loader.convert_method_id_to_method_name(frame.method_id)

            def stmt_of(stmt_id):
                return frame.unit_gir.get_stmt_by_id(stmt_id)

            for u, v in frame.symbol_graph.graph.edges():
                # definition node -> using statement
                if not isinstance(u, SymbolDefNode) or isinstance(v, SymbolDefNode):
                    continue
                sym = frame.symbol_state_space[u.index]
                def_stmt, use_stmt = stmt_of(u.stmt_id), stmt_of(v)
                if not isinstance(sym, Symbol) or def_stmt is None or use_stmt is None:
                    continue
                if sym.name.startswith("%") or def_stmt.operation == "variable_decl":
                    continue
                pairs.append([name, int(use_stmt.start_row) + 1, sym.name, int(def_stmt.start_row) + 1])
        sys.__stdout__.write("RESULT " + json.dumps(pairs) + "\n")
    finally:
        shutil.rmtree(work, ignore_errors=True)



if __name__ == "__main__":
    if "--child" in sys.argv:
        child(sys.argv[sys.argv.index("--child")+1]); sys.exit(0)
    env = dict(os.environ, PYTHONPATH=ROOT + "/src")
    for mode in ("p2","p3"):
        p = subprocess.run([sys.executable, os.path.abspath(__file__), ROOT, "--child", mode], env=env, capture_output=True, text=True)
        for line in p.stdout.splitlines():
            if line.startswith("RESULT "):
                got = {}
                for name, use_line, var, def_line in json.loads(line[7:]):
                    got.setdefault((name, use_line, var), set()).add(def_line)
                for kk in sorted(got): print(mode, kk, sorted(got[kk]))
        if "RESULT" not in p.stdout: print(p.stdout[-1500:], p.stderr[-3000:])
