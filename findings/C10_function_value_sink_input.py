def sink(v):
    return v

def main():
    x = sourc()
    f = sink
    f(x)

main()
