def f(x):
    return x
