import helper
from helper import f as g

def run():
    a = helper.f(1)      # no call edge on the pinned tree: call_paths_p3 holds run -> f only for the next statement
    b = g(2)
    return a

run()
