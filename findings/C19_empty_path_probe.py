import sys, builtins
builtins.profile = lambda f: f
sys.path.insert(0, "/repo/src")
from lian.common_structs import PathManager, CallPath, CallSite
pm = PathManager()
a = CallSite(1, 2, 3)
print("add []  ->", pm.add_path(CallPath(())))
print("add [a] ->", pm.add_path(CallPath((a,))))
print("stored:", sorted(len(p) for p in pm.paths))
pm2 = PathManager()
print(pm2.add_path(CallPath((a,))), pm2.add_path(CallPath(())), sorted(len(p) for p in pm2.paths))
pm3 = PathManager()
b = CallSite(3, 4, 5)
print(pm3.add_path(CallPath(())), pm3.add_path(CallPath((a, b))), pm3.remove_path(CallPath((a, b))) if hasattr(pm3, "remove_path") else None, pm3.add_path(CallPath(())), sorted(len(p) for p in pm3.paths))
