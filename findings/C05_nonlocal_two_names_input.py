def outer():
    a = 1
    b = 2
    def inner():
        nonlocal a, b
        a = 3
        b = 4
    inner()
    return a + b
