# C16: run with PYTHONPATH=<repo>/src
import sys, builtins; builtins.profile = lambda f: f
from lian.util.data_model import DataModel
dm = DataModel([{'a': 1, 'b': 10}, {'a': 2, 'b': 20}, {'a': 3, 'b': 30}])
dm.remove_rows('a', 1)
assert dm.access(0).a == 2                 # row 0 is the row with a == 2
assert dm.access(0, 'b') == 20             # before fix b58...: KeyError 0 (label lookup)
dm.modify_element(0, 'b', 99)
assert len(dm._data) == 2 and dm.access(0).b == 99   # before the fix: a third row labelled 0 was appended, row 0 unchanged
print("ok")
