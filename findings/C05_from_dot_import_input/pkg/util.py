def helper(x):
    return "parent"
