def helper(x):
    return "own"
