from . import util
from .util import helper
def run(v):
    return helper(v)
