def main():
    a = 'x" + "y'
    b = "z"
    c = a + b
    d = 'it' + "'s"
    return c
main()
