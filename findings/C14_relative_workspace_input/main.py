def f(a):
    return a
