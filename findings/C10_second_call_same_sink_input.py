def main():
    z = sourc()
    a = sourc()
    sink(0)
    sink(a)

def other():
    b = sourc()
    sink(b)

main()
other()
