a = "1+1"
b = "2+2"
c = a and b
d = a or b
e = "9" and 3
