a = [10,
     # twenty comes next
     20,
     30]
b = a[1]
t = (1,
     # c
     2)
# top comment
def f(x):
    # inner comment
    return x  # trailing
