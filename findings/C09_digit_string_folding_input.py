def main():
    a = "12"
    b = "34"
    c = a + b
    d = 12 + 34
    return c
main()

def more():
    e = "ab" + "cd"
    f = 7 * 6
    g = "x" + "1"
    return e
more()
