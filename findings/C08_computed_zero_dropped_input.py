def f(c):
    u = 1
    if c:
        u = 2
    w = u - u
    y = w + 1
    z = 5 - 5
    return y

f(True)
