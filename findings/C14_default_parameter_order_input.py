def g(a, bb=1, ccc=2, dddd=3, eeeee=4):
    return a

def main():
    g(0)

main()
