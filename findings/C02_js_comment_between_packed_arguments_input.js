function g(rest) {
  return f(1, /* two */ 2, ...rest);
}
