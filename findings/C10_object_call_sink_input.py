class Q:
    def add(self, v):
        return v

class A:
    def __init__(self):
        self.queue = Q()

    def run(self):
        x = sourc()
        self.queue.add(x)

def main():
    a = A()
    a.run()

main()
