function f(n, x) {
  var y = 0;
  for (var i = 0; i < n; i++) {
    switch (x) {
      case 1:
        continue;
      default:
        y = 2;
    }
    y = 1;
  }
  return y;
}
