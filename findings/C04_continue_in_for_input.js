function f(n) {
  var x = 0;
  for (var i = 0; i < n; i++) {
    if (i == 1) {
      continue;      // before the fix: CFG edge continue -> for statement; the run goes continue -> i++ -> i < n
    }
    x = i;
  }
  return x;
}
