class Fast:
    def __init__(self):
        self.speed = 1

class Slow:
    def __init__(self):
        self.speed = 2

def tune(level, engine=None):
    engine.speed = level
    engine.tag = "x"
    return engine

def main(c):
    if c:
        e = Fast()
    else:
        e = Slow()
    r = tune(3, engine=e)
    return r

main(1)
