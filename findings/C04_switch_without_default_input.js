function f(x) {
  var a = 0;
  switch (x) {
    case 1:
      a = 1;
      break;
    case 2:
      a = 2;
      break;
  }
  var b = a;   // before the fix: reachable only through the case bodies; with x = 5 the run goes switch -> here
  return b;
}
