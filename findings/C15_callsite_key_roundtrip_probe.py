import sys, os, builtins, tempfile, shutil
builtins.profile = lambda f: f
sys.path.insert(0, "/repo/src")
from lian.util import loader as loader_mod
from lian.common_structs import CallSite, ParameterMapping
def mapping(a, s, p):
    return ParameterMapping(arg_index_in_space=a, arg_state_id=s, arg_source_symbol_id=s+1000, arg_access_path=[], parameter_symbol_id=p, parameter_access_path=None, is_default_value=False)
tmp = tempfile.mkdtemp(prefix="rt1_")
base = os.path.join(tmp, "callee_parameter_mapping")
site = CallSite(100, 7, 201)
ld = loader_mod.CalleeParameterMapping(None, [], base, 1, 1)
ld.save(site, [mapping(5, 50, 2011)])
ld.export(); ld.export_indexing()
print("same loader after export:", ld.get_item_by_id(site) is not None)
ld2 = loader_mod.CalleeParameterMapping(None, [], base, 1, 1)
ld2.restore_indexing()
print("restored keys:", [(type(k).__name__, k) for k in ld2.item_id_to_bundle_id])
got = ld2.get_item_by_id(site) if ld2.contain(site) else None
print("fresh loader get(CallSite(100, 7, 201)):", got)
shutil.rmtree(tmp)
